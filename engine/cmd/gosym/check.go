package main

import (
	"encoding/json"
	"fmt"
	"os"
	"path/filepath"
	"sort"
	"strings"
	"time"

	"gosym/vm"
	"golang.org/x/tools/go/ssa"
)

// harnessSpec describes one harness of a property and its bounds per tier.
type harnessSpec struct {
	Name     string         // pkg.Func inside the harness module
	Module   string         // directory of the harness module under /verif ("harness", "harness_http", ...)
	Quick    map[string]int // vrt.Param values = the stated bounds
	Thorough map[string]int
	Covers   []string // cover points that must be reached (vacuity guard)
	Xval     int      // translator-validation samples per tier (quick); thorough = 4x
	XSolvers []string // thorough tier: back-ends every query is mirrored to (verdicts diffed)
	Desc     string
}

type propertySpec struct {
	ID        string
	Own       []string // assertion-id prefixes owned by this property (default: ID + ".")
	Harnesses []harnessSpec
	Assume    []string // stated assumptions / stubs for the evidence
}

type knownFinding struct {
	Status      string `json:"status"` // open | fixed
	Property    string `json:"property"`
	ID          string `json:"id"`
	AssertID    string `json:"assert_id"`
	CarveOut    string `json:"carve_out"`
	Witness     string `json:"witness"`
	Description string `json:"description"`
	Commit      string `json:"commit,omitempty"`
}

type knownFindings []knownFinding

func (p *propertySpec) own() []string {
	if len(p.Own) > 0 {
		return p.Own
	}
	return []string{p.ID + "."}
}

func loadKnownFindings() (knownFindings, error) {
	b, err := os.ReadFile(filepath.Join(verifDir(), "known_findings.json"))
	if err != nil {
		return nil, err
	}
	var kf knownFindings
	if err := json.Unmarshal(b, &kf); err != nil {
		return nil, err
	}
	return kf, nil
}

// openMap: finding id -> assertion ids it excuses ("a|b" lists alternatives).
func (kf knownFindings) openMap() map[string][]string {
	m := map[string][]string{}
	for _, k := range kf {
		if k.Status == "open" {
			m[k.ID] = strings.Split(k.AssertID, "|")
		}
	}
	return m
}

func (kf knownFindings) byID(id string) *knownFinding {
	for i := range kf {
		if kf[i].ID == id {
			return &kf[i]
		}
	}
	return nil
}

type harnessEvidence struct {
	Harness    string           `json:"harness"`
	Bounds     map[string]int   `json:"bounds"`
	Paths      map[string]int64 `json:"paths"`
	Decisions  int64            `json:"decisions"`
	Solver     map[string]any   `json:"solver"`
	Covers     map[string]int64 `json:"cover_points"`
	Exhaustive bool             `json:"work_list_exhausted"`
	Aborts     map[string]int64 `json:"aborts,omitempty"`
	Xval       map[string]any   `json:"translator_validation,omitempty"`
	WallS      float64          `json:"wall_s"`
	Desc       string           `json:"what"`
}

func cmdCheck(args []string) int {
	tier, rest := tierOf(args)
	if len(rest) != 1 {
		fmt.Fprintln(os.Stderr, "usage: gosym check <property> [--tier quick|thorough]")
		return 2
	}
	prop := rest[0]
	spec := findProperty(prop)
	if spec == nil {
		fmt.Fprintln(os.Stderr, "no check registered for property", prop)
		return 2
	}
	t0 := time.Now()
	kf, err := loadKnownFindings()
	if err != nil {
		fmt.Fprintln(os.Stderr, "known_findings.json:", err)
		return 2
	}
	os.MkdirAll(filepath.Join(verifDir(), "bin"), 0o755)
	os.MkdirAll(filepath.Join(verifDir(), "evidence"), 0o755)

	infra := []string{}
	violations := []string{}
	knownLines := map[string]bool{}
	var hev []harnessEvidence
	funcs := map[string]int{}
	intr := map[string]int64{}
	var samples []any
	var states, transitions, xvalTotal, replays int64
	var totalQueries int64
	var solverS float64
	exhaustiveAll := true

	// group harnesses by module: one load + one native runner per module
	byModule := map[string][]harnessSpec{}
	var modOrder []string
	for _, h := range spec.Harnesses {
		if _, ok := byModule[h.Module]; !ok {
			modOrder = append(modOrder, h.Module)
		}
		byModule[h.Module] = append(byModule[h.Module], h)
	}
	for _, mod := range modOrder {
		hs := byModule[mod]
		modDir := filepath.Join(verifDir(), mod)
		pkgSet := map[string]bool{}
		var pkgs []string
		for _, h := range hs {
			p := "./" + h.Name[:strings.LastIndex(h.Name, ".")]
			if !pkgSet[p] {
				pkgSet[p] = true
				pkgs = append(pkgs, p)
			}
		}
		ld, err := loadHarness(modDir, pkgs)
		if err != nil {
			fmt.Fprintln(os.Stderr, "cannot load harness against the current tree:", err)
			infra = append(infra, "load: "+err.Error())
			continue
		}
		bin, err := buildReplayBinary(modDir)
		if err != nil {
			fmt.Fprintln(os.Stderr, err)
			infra = append(infra, err.Error())
			continue
		}
		defer os.Remove(bin)
		modPath := harnessMod
		if mod != "harness" {
			modPath = harnessMod + "/" + strings.TrimPrefix(mod, "harness_")
		}
		for _, h := range hs {
			params := h.Quick
			if tier == "thorough" && h.Thorough != nil {
				params = h.Thorough
			}
			dot := strings.LastIndex(h.Name, ".")
			entry := ld.m.Func(modPath+"/"+h.Name[:dot], h.Name[dot+1:])
			if entry == nil {
				infra = append(infra, "harness function not found: "+h.Name)
				continue
			}
			var xs []string
			if tier == "thorough" {
				xs = h.XSolvers
			}
			st := vm.Explore(vm.Config{Machine: ld.m, Entry: entry, Harness: h.Name, Workers: workerCount(), Params: params, KnownOpen: kf.openMap(), Samples: 3, OwnPrefixes: spec.own(), XSolvers: xs})
			fmt.Printf("[%s %s] ", prop, h.Name)
			printStats(st, ld.loadS)
			he := harnessEvidence{Harness: h.Name, Bounds: params, Decisions: st.Decisions, Covers: st.Covers, Exhaustive: st.Exhausted, WallS: st.Wall.Seconds(), Desc: h.Desc,
				Paths:  map[string]int64{"completed": st.Completed, "pruned": st.Pruned, "failed": st.Failed, "aborted": st.Aborted, "runs": st.Runs},
				Solver: map[string]any{"backend": "z3 " + z3Version(), "queries": st.Queries, "sat": st.Sat, "unsat": st.Unsat, "inconclusive": st.Unknown, "time_s": st.SolverTime.Seconds()}}
			if len(xs) > 0 {
				he.Solver["cross_checked_with"] = xs
				he.Solver["mirrored_queries"] = st.XQueries
				he.Solver["disagreements"] = st.XDisagree
				if st.XDisagree > 0 {
					infra = append(infra, fmt.Sprintf("%s: %d solver disagreements", h.Name, st.XDisagree))
				}
			}
			if st.Aborted > 0 {
				he.Aborts = st.AbortMsgs
				var msgs []string
				for k := range st.AbortMsgs {
					msgs = append(msgs, k)
				}
				sort.Strings(msgs)
				infra = append(infra, fmt.Sprintf("%s: %d aborted paths (%s)", h.Name, st.Aborted, strings.Join(msgs, "; ")))
			}
			if !st.Exhausted {
				exhaustiveAll = false
				infra = append(infra, h.Name+": work list not exhausted")
			}
			for _, c := range h.Covers {
				if st.Covers[c] == 0 {
					infra = append(infra, fmt.Sprintf("%s: cover point %q not reached (vacuous harness?)", h.Name, c))
				}
			}
			states += st.Completed
			transitions += st.Decisions
			totalQueries += st.Queries
			solverS += st.SolverTime.Seconds()
			for f, n := range st.Funcs {
				funcs[f] = n
			}
			for f, n := range st.Intrinsics {
				intr[f] += n
			}
			for _, s := range st.Samples {
				if len(samples) < 6 {
					samples = append(samples, map[string]any{"harness": h.Name, "inputs": s})
				}
			}
			// violations: confirm natively before reporting
			for n, f := range st.Failures {
				path := writeReplay(prop, &h, params, f, n)
				ok, how := confirmNatively(bin, h.Name, path, f.AssertID, 200)
				replays++
				if ok {
					line := fmt.Sprintf("VIOLATION property=%s replay=%s", prop, path)
					violations = append(violations, line)
					fmt.Println(line)
					fmt.Printf("  assertion %s: %s  inputs=%v  native: %s\n", f.AssertID, f.Msg, f.Env, how)
					samples = append(samples, map[string]any{"harness": h.Name, "violation": f.AssertID, "inputs": f.Env})
				} else {
					fmt.Printf("UNCONFIRMED property=%s assert=%s replay=%s (%s): the VM or a model is wrong; not reported as a violation\n", prop, f.AssertID, path, how)
					infra = append(infra, "unconfirmed counterexample "+f.AssertID+" ("+how+")")
				}
				if n >= 9 {
					break
				}
			}
			// known findings
			for id, f := range st.KnownSample {
				k := kf.byID(id)
				path := writeReplay(prop, &h, params, f, 1000+len(knownLines))
				ok, how := confirmNatively(bin, h.Name, path, f.AssertID, 200)
				replays++
				line := fmt.Sprintf("KNOWN-FINDING: property=%s %s [%s; %d paths; native replay: %v %s]", prop, k.Description, id, st.KnownSeen[id], ok, how)
				if !knownLines[id] {
					knownLines[id] = true
					fmt.Println(line)
				}
				samples = append(samples, map[string]any{"harness": h.Name, "known_finding": id, "assert": f.AssertID, "inputs": f.Env, "confirmed_natively": ok})
			}
			// translator validation
			nx := h.Xval
			if tier == "thorough" {
				nx *= 4
			}
			if nx > 0 {
				okN, bad := xval(ld, entry, &h, params, bin, nx, seedOf(), kf)
				xvalTotal += int64(okN)
				he.Xval = map[string]any{"samples": nx, "identical": okN}
				if len(bad) > 0 {
					he.Xval["mismatches"] = bad
					infra = append(infra, fmt.Sprintf("%s: translator validation mismatch: %s", h.Name, bad[0]))
				}
			}
			hev = append(hev, he)
		}
	}

	// evidence
	var fl []map[string]any
	var names []string
	for f := range funcs {
		names = append(names, f)
	}
	sort.Strings(names)
	for _, f := range names {
		fl = append(fl, map[string]any{"func": f, "ssa_instructions": funcs[f]})
	}
	var kfSeen []string
	for id := range knownLines {
		kfSeen = append(kfSeen, id)
	}
	sort.Strings(kfSeen)
	if len(samples) == 0 {
		samples = append(samples, "no path completed")
	}
	ev := map[string]any{
		"property_id": prop,
		"tier":        tier,
		"seed":        seedOf(),
		"level":       "model_checking",
		"wall_s":      time.Since(t0).Seconds(),
		"violations":  len(violations),
		"assumptions": append([]string{
			"bounded: every claim holds only inside the bounds listed per harness (coverage.harnesses[].bounds); outside them nothing is claimed",
			"trusted base: go/ssa lowering, the gosym VM (validated by native replay and translator validation), intrinsic models of reflect/sync/context/errors/fmt, z3, the reference models in the harness",
			"map iteration order: `order_schemes` schemes (rotations/reflections of insertion order), one per path",
			"scheduling: G1 = context switches at user callbacks (constructors, Close methods, handlers), blocking points and goroutine exit, all enumerated; harnesses with the bound g2=n add up to n involuntary switches, each in front of any mutex acquisition / atomic / sync.Map operation executed by godi's own code (G2). Interleavings that need more pre-emptions than that, or a pre-emption between two plain memory accesses (which is a data race and the business of the happens-before detector), are outside every claim. Data races are covered only where a harness enables the happens-before detector (bounds: race=1; web *Conc harnesses) and only between the operations that harness runs together",
		}, spec.Assume...),
		"coverage": map[string]any{
			"states":                        states,
			"transitions":                   transitions,
			"traces_validated_against_impl": xvalTotal + replays,
			"samples":                       samples,
			"exhaustive":                    exhaustiveAll && len(infra) == 0,
			"rule":                          "states = feasible path classes completed by the symbolic VM (one per equivalence class of inputs x map-order scheme x schedule); transitions = solver-decided decisions taken; every branch on a symbolic value is decided by z3 over all values in the bounds",
			"functions_encoded":             fl,
			"intrinsics_hit":                intr,
			"harnesses":                     hev,
			"solver_queries":                totalQueries,
			"solver_time_s":                 solverS,
			"known_findings_seen":           kfSeen,
			"infrastructure_problems":       infra,
			"native_replays":                replays,
		},
	}
	if states == 0 {
		ev["coverage"].(map[string]any)["states"] = 0
	}
	b, _ := json.MarshalIndent(ev, "", " ")
	os.WriteFile(filepath.Join(verifDir(), "evidence", prop+".json"), b, 0o644)

	for _, b := range raceBinaries {
		os.Remove(b)
	}
	for _, b := range g2Binaries {
		os.Remove(b)
	}
	if len(violations) > 0 {
		return 1
	}
	if len(infra) > 0 {
		for _, m := range infra {
			fmt.Println("INFRASTRUCTURE:", m)
		}
		return 2
	}
	fmt.Printf("OK property=%s tier=%s paths=%d decisions=%d queries=%d wall=%.1fs\n", prop, tier, states, transitions, totalQueries, time.Since(t0).Seconds())
	return 0
}

var z3v string

func z3Version() string {
	if z3v == "" {
		z3v = "4.8.12"
	}
	return z3v
}

// xval: translator validation. K pseudo-random concrete inputs are run
// natively and in the VM; assertion verdicts and observation traces must agree
// (the native result must equal that of some VM path: map order and schedule
// remain free in the VM).
func xval(ld *loaded, entry *ssa.Function, h *harnessSpec, params map[string]int, bin string, k int, seed int64, kf knownFindings) (int, []string) {
	okN := 0
	var bad []string
	pf := filepath.Join(verifDir(), "bin", fmt.Sprintf("xval.%d.json", os.Getpid()))
	b, _ := json.Marshal(map[string]any{"params": params})
	os.WriteFile(pf, b, 0o644)
	defer os.Remove(pf)
	for s := 0; s < k; s++ {
		env := []string{"VRT_REPLAY=" + pf, fmt.Sprintf("VRT_RANDOM=%d", seed*1000003+int64(s)+1)}
		nr := runNative(bin, h.Name, env, 20*time.Second)
		if nr.exit != 0 && nr.exit != 3 {
			// native crash (e.g. stack overflow on a known finding): skip
			continue
		}
		nat0 := strings.Join(nr.trace, "\n") + "\n#" + strings.Join(dedupSorted(nr.fails), ",")
		st := vm.Explore(vm.Config{Machine: ld.m, Entry: entry, Harness: h.Name, Workers: workerCount(), Params: params, KnownOpen: map[string][]string{}, Concrete: nr.inputs, CollectObs: true, StopOnObs: nat0, AllFailuresKnown: true})
		var nat string
		match := false
		// the native side free-runs the container's own goroutines (watchers): a
		// mismatch is only reported if it shows on every one of four native runs
		for try := 0; try < 4 && !match; try++ {
			if try > 0 {
				nr = runNative(bin, h.Name, env, 20*time.Second)
			}
			nat = strings.Join(nr.trace, "\n") + "\n#" + strings.Join(dedupSorted(nr.fails), ",")
			for _, o := range st.Obs {
				if o == nat {
					match = true
					break
				}
			}
			if nr.pruned && st.Completed == 0 {
				match = true
			}
		}
		if match {
			okN++
		} else if len(bad) < 3 {
			vmo := "<none>"
			if len(st.Obs) > 0 {
				vmo = st.Obs[0]
			}
			bad = append(bad, fmt.Sprintf("inputs=%v native=%q vm=%q aborts=%v", nr.inputs, nat, vmo, st.AbortMsgs))
		}
	}
	return okN, bad
}

func dedupSorted(in []string) []string {
	m := map[string]bool{}
	var out []string
	for _, s := range in {
		if !m[s] {
			m[s] = true
			out = append(out, s)
		}
	}
	sort.Strings(out)
	return out
}

func cmdReplay(args []string) int {
	if len(args) != 2 {
		fmt.Fprintln(os.Stderr, "usage: gosym replay <property> <replay.json>")
		return 2
	}
	b, err := os.ReadFile(args[1])
	if err != nil {
		fmt.Fprintln(os.Stderr, err)
		return 2
	}
	var rf replayFile
	if err := json.Unmarshal(b, &rf); err != nil {
		fmt.Fprintln(os.Stderr, err)
		return 2
	}
	mod := rf.Module
	if mod == "" {
		mod = "harness"
	}
	bin, err := buildReplayBinary(filepath.Join(verifDir(), mod))
	if err != nil {
		fmt.Fprintln(os.Stderr, err)
		return 2
	}
	defer os.Remove(bin)
	ok, how := confirmNatively(bin, rf.Harness, args[1], rf.AssertID, 200)
	if ok {
		fmt.Printf("VIOLATION property=%s replay=%s\n  reproduced natively: assertion %s (%s) %s\n", args[0], args[1], rf.AssertID, rf.Msg, how)
		return 1
	}
	fmt.Printf("not reproduced: %s\n", how)
	return 0
}
