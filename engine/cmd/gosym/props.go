package main

import (
	"fmt"
	"os"
	"path/filepath"

	"gosym/vm"
)

// The table of checks: which harnesses decide which property, with the bounds
// of each tier. Bounds registered here are the largest that run clean inside
// the time budget on the unchanged tree.

var properties = []propertySpec{
	{
		ID: "C19",
		Harnesses: []harnessSpec{
			{Name: "graphh.H_C19", Module: "harness",
				Quick:    map[string]int{"N": 3, "L": 1, "order_schemes": 2, "raw_start": 1},
				Thorough: map[string]int{"N": 3, "L": 2, "order_schemes": 6, "raw_start": 1},
				Covers:   []string{"acyclic_state", "cyclic_state", "replace", "rejected_add", "deferred_add", "remove", "clear", "noop", "raw_start"},
				Xval:     40,
				XSolvers: []string{"z3-new", "cvc5"},
				Desc:     "start state from symbolic presence/dependency masks over N identities (types x keys x groups), then L operations {AddProvider, AddProviderDeferred+DetectCycles, RemoveProvider, Clear, query-only} with symbolic operands; every exported query compared with a reference digraph after each step; raw_start=1: optionally the first operation follows the deferred adds directly, without the DetectCycles that refreshes degrees and dependents (then it is one of the operations documented to refresh them)"},
		},
	},
	{
		ID: "C05",
		Harnesses: []harnessSpec{
			{Name: "graphh.H_C05a_Deferred", Module: "harness",
				Quick:    map[string]int{"N": 3, "order_schemes": 6},
				Thorough: map[string]int{"N": 4, "order_schemes": 4},
				Covers:   []string{"cycle_reported", "acyclic"},
				Xval:     40,
				Desc:     "every digraph on N identities incl. self-loops (symbolic N*N edge mask) through AddProviderDeferred + DetectCycles; verdict vs transitive closure, reported path checked edge by edge, cached verdict, IsAcyclic"},
			{Name: "graphh.H_C05a_Immediate", Module: "harness",
				Quick:    map[string]int{"N": 3, "order_schemes": 2},
				Thorough: map[string]int{"N": 4, "order_schemes": 2},
				Covers:   []string{"rejected", "all_accepted"},
				Xval:     20,
				XSolvers: []string{"z3-new", "cvc5"},
				Desc:     "every digraph on N identities through immediate AddProvider, up to the first rejection"},
		},
	},
	{
		ID: "C06",
		Harnesses: []harnessSpec{
			{Name: "graphh.H_C06a_Topo", Module: "harness",
				Quick:    map[string]int{"N": 3, "order_schemes": 6},
				Thorough: map[string]int{"N": 4, "order_schemes": 4},
				Covers:   []string{"immediate", "deferred"},
				Xval:     40,
				Desc:     "every DAG on N identities (cyclic masks assumed away), immediate and deferred insertion; TopologicalSort lists each node once, dependencies first; memoised result re-checked"},
		},
	},
}

func hist(profile, n, nodes, L, schemes int) map[string]int {
	return map[string]int{"profile": profile, "n": n, "nodes": nodes, "L": L, "order_schemes": schemes}
}

func bld(profile, n, schemes int) map[string]int {
	return map[string]int{"profile": profile, "n": n, "order_schemes": schemes}
}

const histDesc = "world of n registrations drawn from the kit (symbolic lifetime, identity form, dependency shape per registration; profile = sub-space), real Build, fixed scope tree (provider, scope, child, sibling), L symbolic resolutions then two sweeps resolving every identity at every node; every observed object is bound to the reference model (identity, producer, arguments, constructor counts)"
const rebuildDesc = "a collection that was already built once (verdict symbolic) is edited - one registration removed and registered again with a symbolic other lifetime and dependency shape, so that the registration count is unchanged - and built again: the second Build is judged against the model of the edited set exactly like a fresh collection (cycle / lifetime / missing-dependency verdict classes, resolvability, captive instances)"
const keyedLifeDesc = "one service type registered unkeyed, as \"n0\" and as \"n1\" (each present or not, each with its own symbolic lifetime) and one consumer of symbolic lifetime naming exactly one of these identities (or optionally \"n1\"); built twice (four registration orders, another map-order scheme): equal verdicts; lifetime conflict iff the NAMED identity is scoped under a singleton / transient consumer - never because of another registration of the same type; valid sets build; the consumer receives the instance of the identity it names"
const buildDesc = "world of n registrations (profile = sub-space of forms and dependency shapes incl. cycles, scoped targets, unregistered targets); Build verdict class vs the model's dependency relation; on success every identity resolved from a fresh scope"

func init() {
	h := func(name string, q, t map[string]int, covers []string, xv int, desc string) harnessSpec {
		return harnessSpec{Name: name, Module: "harness", Quick: q, Thorough: t, Covers: covers, Xval: xv, Desc: desc}
	}
	noAs2 := func(m map[string]int) map[string]int { m["as2"] = 0; return m }
	auxnil := func(m map[string]int) map[string]int { m["auxnil"] = 1; return m }
	with2 := func(m map[string]int, k string, v int) map[string]int { m[k] = v; return m }
	histCov := []string{"built", "history_done"}
	buildCov := []string{"built", "build_failed", "model_valid"}
	properties = append(properties,
		propertySpec{ID: "C01", Harnesses: []harnessSpec{
			h("cont.H_Hist", hist(0, 2, 3, 1, 2), hist(0, 2, 4, 2, 2), histCov, 30, histDesc),
			h("cont.H_Hist", hist(2, 2, 3, 0, 1), hist(2, 2, 4, 1, 2), histCov, 0, histDesc),
			h("cont.H_Hist", hist(1, 2, 2, 0, 2), hist(1, 3, 3, 1, 2), histCov, 0, histDesc),
			h("cont.H_Hist", auxnil(hist(4, 2, 3, 0, 2)), auxnil(hist(4, 2, 4, 1, 2)), histCov, 0, histDesc+"; multi-output forms, with a symbolic mask of multi-return constructors whose second output is a nil pointer (a value like any other: stored once, handed out as such)"),
			h("cont.H_Hist", with2(hist(3, 2, 3, 0, 1), "singleton_init", 1), with2(hist(3, 2, 4, 1, 2), "singleton_init", 1), histCov, 0, histDesc+"; initializer profile where a function without a service result may also be registered as a singleton: it runs exactly once, at Build, never again at scope creation"),
			h("cont.H_Hist", with2(hist(0, 2, 3, 0, 1), "twin", 1), with2(hist(0, 2, 4, 1, 2), "twin", 1), append([]string{"twin_built"}, histCov...), 0, histDesc+"; twin=1: a second provider is built from the SAME collection and stays alive while the first is used, is swept itself, and is closed before a last sweep of the first: each provider has singleton instances of its own (one table of observed objects for both models), constructor counts are those of two Builds"),
			h("cont.H_Instances", map[string]int{"order_schemes": 2}, map[string]int{"order_schemes": 4}, []string{"replaced", "resolved"}, 20, "2..3 values of ONE Go type registered as instances under symbolic identities (unkeyed, distinct names, members of one group), optionally one removed and replaced by a new value before Build; every identity resolved twice from the provider, a scope and a nested scope and injected into a scoped consumer (keyed fields and a group field): always exactly the value registered for it, group members in registration order, a removed value never again"),
		}},
		propertySpec{ID: "C02", Harnesses: []harnessSpec{
			h("cont.H_Hist", noAs2(hist(0, 2, 3, 1, 1)), noAs2(hist(0, 2, 4, 2, 2)), histCov, 30, histDesc),
			h("cont.H_Hist", noAs2(hist(3, 2, 4, 1, 1)), noAs2(hist(3, 3, 4, 1, 1)), histCov, 0, histDesc),
		}},
		propertySpec{ID: "C03", Harnesses: []harnessSpec{
			h("cont.H_Hist", noAs2(hist(1, 3, 3, 1, 1)), noAs2(hist(1, 3, 3, 1, 2)), histCov, 30, histDesc),
			h("cont.H_Hist", noAs2(hist(0, 2, 3, 1, 1)), noAs2(hist(0, 2, 4, 2, 1)), histCov, 0, histDesc),
			h("cont.H_OptionalFault", map[string]int{"rounds": 3, "order_schemes": 1}, map[string]int{"rounds": 4, "order_schemes": 2}, []string{"consumer_built", "built_around_failure"}, 10, "a scoped or transient consumer whose parameter object has an optional field of a transient type (3 shapes), constructed in several scopes while the optional dependency's constructor fails (error / panic) at a symbolic invocation: no two consumers receive one transient instance, and a consumer built while the dependency could not be constructed holds nothing in that field"),
			h("cont.H_Hist", noAs2(hist(7, 3, 3, 0, 1)), noAs2(hist(7, 3, 4, 1, 2)), histCov, 0, histDesc+"; profile 7: one interface type registered both as an unkeyed service and as the element type of a value group (members with their own lifetimes), and consumers taking the group: what a consumer receives for the group is decided by the members, never by the unkeyed registration of the element type"),
		}},
		propertySpec{ID: "C04", Harnesses: []harnessSpec{
			h("cont.H_Hist", noAs2(hist(0, 2, 3, 1, 1)), noAs2(hist(0, 2, 4, 2, 1)), histCov, 30, histDesc),
			h("cont.H_Hist", noAs2(hist(1, 3, 2, 0, 1)), noAs2(hist(1, 3, 4, 1, 1)), histCov, 0, histDesc),
			h("cont.H_Hist", noAs2(hist(2, 2, 2, 0, 1)), noAs2(hist(2, 2, 4, 1, 1)), histCov, 0, histDesc),
			h("cont.H_Hist", auxnil(noAs2(hist(4, 2, 3, 1, 1))), auxnil(noAs2(hist(4, 2, 4, 2, 1))), histCov, 20, histDesc),
h("cont.H_OptionalFault", map[string]int{"rounds": 3, "order_schemes": 1}, map[string]int{"rounds": 4, "order_schemes": 2}, []string{"consumer_built", "built_around_failure"}, 10, "a scoped or transient consumer whose parameter object has an optional field of a transient type (3 shapes), constructed in several scopes while the optional dependency's constructor fails (error / panic) at a symbolic invocation: no two consumers receive one transient instance, and a consumer built while the dependency could not be constructed holds nothing in that field"),
			h("cont.H_FuncKinds", map[string]int{"order_schemes": 1}, map[string]int{"order_schemes": 2}, []string{"resolved"}, 20, "two registrations under two names whose constructors are function values of one kind {top-level functions, closures of one //go:noinline factory, method values of one method, two generic instantiations, reflect.MakeFunc functions, closures consuming a MakeFunc-built dependency of another signature, one generic instantiation twice, constructors whose parameter objects are two function-local types of the same name with differently tagged fields} x lifetime x registration order: each identity must be produced by exactly the function value registered for it"),
			h("cont.H_SharedCodeConc", map[string]int{"rounds": 1, "race": 0, "order_schemes": 1}, map[string]int{"rounds": 2, "race": 0, "order_schemes": 1}, []string{"both_done"}, 10, "two goroutines resolving, in their own scopes, services whose constructors share code: reflect.MakeFunc values of two signatures, or closures of one literal under two names whose dependency's constructor yields (another resolution runs between choosing the function value and calling it); every interleaving at those points; each identity built by exactly its own function value"),
		}},
		propertySpec{ID: "C07", Harnesses: []harnessSpec{
			h("cont.H_Build", bld(0, 3, 1), bld(0, 3, 2), append([]string{"model_conflict"}, buildCov...), 30, buildDesc),
			h("cont.H_Build", bld(1, 2, 2), bld(1, 2, 4), append([]string{"model_conflict"}, buildCov...), 0, buildDesc),
			h("cont.H_Build", bld(2, 2, 1), bld(2, 3, 1), buildCov, 0, buildDesc),
			h("cont.H_Build", bld(4, 2, 2), bld(4, 3, 2), buildCov, 0, buildDesc),
			h("cont.H_Rebuild", bld(3, 2, 1), bld(0, 2, 1), append([]string{"model_conflict", "first_build_ok", "first_build_failed"}, buildCov...), 20, rebuildDesc),
			h("cont.H_Build", bld(6, 4, 1), bld(6, 4, 2), append([]string{"model_conflict"}, buildCov...), 0, buildDesc+"; profile 6: four registrations, interface-typed groups with several members in front of / behind a plain dependency"),
			h("cont.H_Rebuild", with2(bld(1, 2, 1), "edit", 1), with2(bld(1, 2, 2), "edit", 1), append([]string{"first_build_ok", "first_build_failed"}, buildCov...), 0, "a collection is built while one (symbolic) registration of the world is still missing; that registration is added afterwards: the provider built before never runs its constructor and holds nothing scoped in a non-scoped instance; the second Build judges the full set like a fresh collection and returns the verdict class a fresh collection with the same registrations returns"),
			h("cont.H_KeyedLifetimes", map[string]int{"order_schemes": 2}, map[string]int{"order_schemes": 4}, []string{"built_twice", "model_conflict"}, 20, keyedLifeDesc),
		}},
		propertySpec{ID: "C08", Harnesses: []harnessSpec{
			h("cont.H_Build", bld(0, 3, 1), bld(0, 3, 2), buildCov, 30, buildDesc),
			h("cont.H_Build", bld(1, 2, 2), bld(1, 2, 4), buildCov, 0, buildDesc),
			h("cont.H_Build", bld(2, 2, 2), bld(2, 3, 1), buildCov, 0, buildDesc),
			h("cont.H_Build", bld(4, 2, 2), bld(4, 3, 2), buildCov, 0, buildDesc),
			h("cont.H_Rebuild", bld(3, 2, 1), bld(0, 2, 1), append([]string{"first_build_ok", "first_build_failed"}, buildCov...), 0, rebuildDesc),
			h("cont.H_Build", bld(6, 4, 1), bld(6, 4, 2), append([]string{"model_conflict"}, buildCov...), 0, buildDesc+"; profile 6: four registrations, interface-typed groups with several members in front of / behind a plain dependency"),
			h("cont.H_Rebuild", with2(bld(1, 2, 1), "edit", 1), with2(bld(1, 2, 2), "edit", 1), append([]string{"first_build_ok", "first_build_failed"}, buildCov...), 0, "a collection is built while one (symbolic) registration of the world is still missing; that registration is added afterwards: the provider built before never runs its constructor and holds nothing scoped in a non-scoped instance; the second Build judges the full set like a fresh collection and returns the verdict class a fresh collection with the same registrations returns"),
			h("cont.H_Rebuild", with2(bld(5, 4, 1), "edit", 1), with2(bld(5, 4, 2), "edit", 1), append([]string{"first_build_ok", "first_build_failed"}, buildCov...), 0, "a collection is built while one (symbolic) registration of the world is still missing; that registration is added afterwards: the provider built before never runs its constructor and holds nothing scoped in a non-scoped instance; the second Build judges the full set like a fresh collection and returns the verdict class a fresh collection with the same registrations returns"),
			h("cont.H_Build", with2(bld(1, 2, 1), "rejected", 1), with2(bld(1, 2, 2), "rejected", 1), append([]string{"rejected_add"}, buildCov...), 0, buildDesc+"; before Build a registration with two aliases in a group is rejected on its second alias (the caller carries on): nothing of it takes part in the Build"),
			h("cont.H_KeyedLifetimes", map[string]int{"order_schemes": 2}, map[string]int{"order_schemes": 4}, []string{"built_twice", "model_conflict"}, 20, keyedLifeDesc),
		}},
	)
	dsp := func(profile, n, nodes, L, closes, faults, errmask int) map[string]int {
		return map[string]int{"profile": profile, "n": n, "nodes": nodes, "L": L, "closes": closes, "faults": faults, "errmask": errmask, "order_schemes": 1, "fnth_max": 2}
	}
	dspCov := []string{"built", "resolved", "all_closed"}
	with := func(m map[string]int, kv ...any) map[string]int {
		for i := 0; i+1 < len(kv); i += 2 {
			m[kv[i].(string)] = kv[i+1].(int)
		}
		return m
	}
	const dspDesc = "world with disposable services (S0,S1,S3 and every auxiliary output have Close), real Build, scope tree, L symbolic + one exhaustive sweep of resolutions, then a symbolic sequence of Close calls on any node (repetitions allowed) and a final close of everything; optional fault plan (the k-th invocation of one constructor returns an error / nil / panics: during Build, scope creation or resolution) and symbolic mask of instances whose Close fails; options: tree=1 (one scope has two children), faults=2 (the context given to BuildWithContext is cancelled from inside a symbolic constructor), closepanic=1 (a symbolic mask of instances whose Close panics: only the order of the closes that happened is judged - nothing of an ancestor is closed while a descendant scope that was not itself cut short still holds open instances); after every Close call: everything owned in the subtree is closed and every scope of the subtree reports disposed, whatever the call returned; close counters, the extent (which container Close) of every close, stamps and return values checked"
	properties = append(properties,
		propertySpec{ID: "C10", Harnesses: []harnessSpec{
			h("cont.H_Dispose", dsp(0, 2, 3, 1, 1, 0, 0), dsp(0, 2, 4, 1, 2, 0, 0), dspCov, 20, dspDesc),
			h("cont.H_Dispose", dsp(2, 2, 3, 1, 1, 1, 0), dsp(2, 3, 3, 1, 1, 1, 0), append([]string{"scope_failed", "build_failed"}, dspCov...), 10, dspDesc),
			h("cont.H_Dispose", dsp(1, 2, 3, 0, 1, 1, 0), dsp(0, 2, 3, 1, 1, 1, 0), append([]string{"build_failed"}, dspCov...), 0, dspDesc),
			h("cont.H_Dispose", with(dsp(0, 2, 2, 0, 1, 2, 0)), with(dsp(0, 3, 3, 0, 1, 2, 0)), append([]string{"build_cancelled", "cancel_ignored"}, dspCov...), 10, dspDesc),
		}},
		propertySpec{ID: "C11", Harnesses: []harnessSpec{
			h("cont.H_Dispose", dsp(0, 2, 3, 1, 1, 0, 0), dsp(0, 2, 4, 1, 2, 0, 0), dspCov, 20, dspDesc),
			h("cont.H_Dispose", dsp(1, 3, 3, 0, 1, 0, 0), dsp(1, 3, 4, 1, 1, 0, 0), dspCov, 0, dspDesc),
			h("cont.H_Dispose", with(dsp(0, 2, 4, 0, 1, 0, 0), "tree", 1, "closepanic", 1), with(dsp(0, 2, 4, 1, 2, 0, 0), "tree", 1, "closepanic", 1), dspCov, 10, dspDesc),
			h("cont.H_Dispose", with(dsp(0, 2, 4, 0, 1, 0, 1), "tree", 1), with(dsp(0, 2, 4, 1, 2, 0, 1), "tree", 1), dspCov, 0, dspDesc),
			h("cont.H_Faults", map[string]int{"order_schemes": 1, "leaf3": 1}, map[string]int{"order_schemes": 2, "leaf3": 1}, []string{"built", "build_failed", "resolution_failed"}, 0, "(C11 around failures) dependency chain 0->1->3 (all three disposable) with symbolic lifetimes, one constructor failing once at a symbolic invocation during Build or a resolution, retries, then the scope and the provider are closed: within one scope an instance is closed before the non-singleton instances it received - also when a failed construction lies between their creation and the Close"),
		}},
		propertySpec{ID: "C12", Harnesses: []harnessSpec{
			h("cont.H_Dispose", dsp(1, 2, 3, 1, 2, 0, 1), dsp(1, 3, 3, 1, 2, 0, 1), dspCov, 20, dspDesc),
			h("cont.H_Dispose", dsp(0, 2, 3, 0, 1, 0, 1), dsp(0, 2, 4, 1, 2, 0, 1), dspCov, 0, dspDesc),
			h("cont.H_Dispose", with(dsp(0, 2, 4, 0, 1, 0, 1), "tree", 1), with(dsp(0, 2, 4, 1, 2, 0, 1), "tree", 1), dspCov, 0, dspDesc),
			h("cont.H_ValueDisposables", map[string]int{"order_schemes": 1}, map[string]int{"order_schemes": 2}, []string{"scope_closed"}, 10, "disposables that are values: 1..3 instances equal as interface values and 0..2 instances of an unhashable type owned by one scope (plus one by the root scope), optionally all failing: every one closed exactly once, one error per failure, no panic, repeated Close inert"),
		}},
	)
	conc := func(ops int) map[string]int { return map[string]int{"ops": ops, "order_schemes": 1, "worlds": 4} }
	const concDesc = "world shape symbolic {S0(S1,S2) or S0(Scope,S1); the same plus a scoped initializer taking S0, so that scope creation runs user code; S0 consuming a value group whose members are registrations 1 and 2; S0 from a multi-return constructor}; two harness goroutines x `ops` operations each from {resolve in shared scope / child scope / provider, CreateScope on scope / provider, Close of scope / provider, cancel of the scope's context}; constructors and Close methods yield; every context switch at those points and at blocking points is a solver-enumerated choice (G1 granularity); no panic, no deadlock (VM detects all-blocked), documented errors only, scoped identity, close counters, goroutine count"
	const cbDesc = "a Close (of the resolving scope, its parent, or the provider) lands inside a user callback of an in-flight Get / Resolve / CreateScope - literally: the constructor or initializer calls Close; the operation must return a value or a disposed error, never panic, and nothing may leak"
	const closedDesc = "scope tree of depth 3 plus a sibling; one closing event (Close of any node, or cancellation of the context given to CreateScope, watcher goroutines run to quiescence); afterwards every operation on every node of the closed subtree must report the disposed error and nodes outside keep working"
	const relDesc = "N create-(nest)-use-close cycles (close via the scope, via its outer scope, or by cancelling the caller's context; nil / value / cancellable caller contexts; scoped or transient service; optional scoped initializer, optionally failing at a symbolic invocation; nested scope with a nil context or a context of its own; closeerr=1: Close methods of the scope's instances return errors); after each cycle: goroutine count back to baseline, scope context cancelled, scope and instances unreachable from the provider (VM heap walk through unexported fields; natively weak pointers + GC), from the parent scope and from the caller's context; cells reachable from the provider equal after every cycle"
	properties = append(properties,
		propertySpec{ID: "C14", Harnesses: []harnessSpec{
			h("cont.H_Release", map[string]int{"cycles": 2, "faults": 0, "order_schemes": 2}, map[string]int{"cycles": 3, "faults": 0, "order_schemes": 2}, []string{"cycle_closed"}, 10, relDesc),
			h("cont.H_Release", map[string]int{"cycles": 2, "faults": 1, "order_schemes": 1}, map[string]int{"cycles": 3, "faults": 1, "order_schemes": 2}, []string{"cycle_closed", "creation_failed"}, 10, relDesc),
			h("cont.H_Release", map[string]int{"cycles": 2, "faults": 0, "closeerr": 1, "order_schemes": 1}, map[string]int{"cycles": 3, "faults": 0, "closeerr": 1, "order_schemes": 2}, []string{"cycle_closed"}, 10, relDesc),
			h("cont.H_ReleaseChild", map[string]int{"cycles": 3, "order_schemes": 2}, map[string]int{"cycles": 4, "order_schemes": 2}, []string{"child_closed"}, 10, relDesc),
		}},
	)
	properties = append(properties,
		propertySpec{ID: "C15", Harnesses: []harnessSpec{
			h("cont.H_Misuse", map[string]int{"order_schemes": 1}, map[string]int{"order_schemes": 2}, []string{"called"}, 30, "a table of 34 API calls with nil / zero / unregistered / mismatched / invalid arguments on a collection, an open provider+scope, and a closed provider+scope (call and state symbolic); no panic, the documented sentinel or typed error through errors.Is/As, collection still buildable after a rejected Add"),
			h("cont.H_Faults", map[string]int{"order_schemes": 1}, map[string]int{"order_schemes": 2}, []string{"built", "build_failed", "resolution_failed"}, 30, "dependency chain 0->1->2 with symbolic lifetimes, registered directly or through nested modules; one constructor - of shape (T, error), (T, A, error) or (result object, error) - fails once (error, wrapped error or panic) at a symbolic invocation during Build or a resolution; error class and cause through BuildError / ResolutionError / ConstructorInvocationError / ModuleError, no caching of the failure, retry re-invokes and yields a fully wired value, everything constructed on the way closed exactly once"),
			h("cont.H_Dispose", dsp(0, 2, 3, 0, 1, 1, 0), dsp(0, 2, 3, 1, 1, 1, 0), append([]string{"build_failed"}, dspCov...), 0, dspDesc),
			h("cont.H_Build", bld(0, 3, 1), bld(0, 3, 2), buildCov, 0, buildDesc+"; under C15: whichever phase of Build notices it, a circular set fails with an error that errors.As classifies as CircularDependencyError and a captive dependency with a LifetimeConflictError"),
			h("cont.H_TypedErrors", map[string]int{"order_schemes": 1}, map[string]int{"order_schemes": 2}, []string{"build_failed", "resolution_failed", "resolved"}, 20, "a constructor whose LAST result is declared with a concrete pointer type implementing error, a struct type with a value-receiver Error method (cannot be nil), or a custom interface embedding error; lifetime symbolic; one invocation (symbolic, or none) fails: no call panics, the failure is an error from which the constructor's own error is reachable with errors.As (BuildError for singletons), nothing is cached, the retry invokes the constructor again and yields a value, a success is reported as a success"),
		}, Own: []string{"C15.", "C10.leaked", "C10.closed_twice", "C10.failed_build_leak", "C10.failed_scope_leak"}},
	)
	properties = append(properties,
		propertySpec{ID: "C17", Harnesses: []harnessSpec{
			h("cont.H_Registry", map[string]int{"L": 2, "order_schemes": 1}, map[string]int{"L": 3, "order_schemes": 1}, []string{"rejected_add", "rejected_second_identity", "rejected_unimplemented_interface", "remove", "remove_keyed", "snapshot"}, 30, "history of L operations {Add directly, Add through a module, Remove, RemoveKeyed, Build} over a pool of two concrete types, an auxiliary type and an interface, keys {nil,k1}, group g1, six registration forms incl. multi-output ones that collide on their second identity, plus registrations with two As options one of which names an interface the service does not implement (must be rejected whole); after every step Contains / ContainsKeyed / Count / ToSlice vs a reference registry; a final Build must use exactly the registry (resolvability per identity, group sizes, no constructor of a removed singleton runs); every provider built on the way is probed again after the later edits"),
			h("cont.H_Registry", map[string]int{"L": 3, "prefix": 1, "order_schemes": 1}, map[string]int{"L": 4, "prefix": 1, "order_schemes": 1}, []string{"rejected_add", "rejected_second_identity", "rejected_unimplemented_interface", "remove", "remove_keyed", "snapshot"}, 0, "(histories starting with Add, Build; the remaining operations symbolic) history of L operations {Add directly, Add through a module, Remove, RemoveKeyed, Build} over a pool of two concrete types, an auxiliary type and an interface, keys {nil,k1}, group g1, six registration forms incl. multi-output ones that collide on their second identity, plus registrations with two As options one of which names an interface the service does not implement (must be rejected whole); after every step Contains / ContainsKeyed / Count / ToSlice vs a reference registry; a final Build must use exactly the registry (resolvability per identity, group sizes, no constructor of a removed singleton runs); every provider built on the way is probed again after the later edits"),
			h("cont.H_Rebuild", with2(bld(1, 2, 1), "edit", 1), with2(bld(1, 2, 2), "edit", 1), append([]string{"first_build_ok", "first_build_failed"}, buildCov...), 0, "a collection is built while one (symbolic) registration of the world is still missing; that registration is added afterwards: the provider built before never runs its constructor and holds nothing scoped in a non-scoped instance; the second Build judges the full set like a fresh collection and returns the verdict class a fresh collection with the same registrations returns"),
			h("cont.H_RejectedKeyGroup", map[string]int{"order_schemes": 1}, map[string]int{"order_schemes": 2}, []string{"rejected"}, 9, "a result-object registration rejected on its SECOND identity (taken already) whose first field is tagged with a name, a group, or both, registered without option, with Group or with Name: the rejected Add changes no query answer (Count, ToSlice, Contains, ContainsKeyed), its first identity can still be registered, a later Build finds nothing of it in the group"),
		}},
	)
	properties = append(properties,
		propertySpec{ID: "C18", Harnesses: []harnessSpec{
			h("cont.H_Builtins", map[string]int{"order_schemes": 1}, map[string]int{"order_schemes": 2}, []string{"consumer_resolved", "warmup_ran"}, 30, "(optionally with a further singleton whose constructor uses the injected Provider WHILE Build runs: opens a scope with a value context, asks it for the consumer, closes it - registered before or after the world) scope tree (scope with caller context carrying a value and a cancel, child with nil context, grandchild with a derived value context, unrelated scope with nil context); a service of symbolic lifetime taking context.Context / Scope / Provider as parameters or parameter-object fields (4 shapes), optionally a scoped initializer taking all three; resolved at a symbolic node; identity of every injected built-in, direct requests, keyed requests, FromContext on scope and derived contexts, value and cancellation propagation"),
			h("cont.H_Reserved", map[string]int{"order_schemes": 1}, map[string]int{"order_schemes": 1}, []string{"tried"}, 10, "ten ways of naming a built-in type in a registration (primary type, As, secondary return value, result-object field, with Name, with Group): all must be rejected, and the built-ins still resolve to the real thing"),
		}},
	)
	properties = append(properties,
		propertySpec{ID: "C20", Harnesses: []harnessSpec{
			h("cont.H_Modules", map[string]int{"order_schemes": 1}, map[string]int{"order_schemes": 2}, []string{"failed", "succeeded", "failed_on_options"}, 30, "(entry kinds since round 8 also: a registration rejected for its OPTIONS - Name together with Group - with and without a nil constructor; whatever the cause, errors.Is / errors.As classify the failure alike through the module wrappers and for the direct call) six module-tree shapes (nesting depth 1..3, bare entries next to modules, nil entries at both levels, a list of exactly one possibly-nil entry, one module with exactly one possibly-nil entry, the empty list) over four entries whose kinds are symbolic {valid add, keyed add, rejected add (nil constructor), duplicate add, nil, Remove[T], RemoveKeyed[T]}; a twin collection receives the flattened direct calls; verdicts, ModuleError chain (names outermost first, once per enclosing module), reachability of the cause, queries, Build verdict, constructor invocations and resolution classes compared"),
		}},
	)
	webDesc := func(fw string) string {
		return "godi's real " + fw + " ScopeMiddleware and Handle closures against a real provider: number of configured middlewares (0..2) and which one fails, default vs custom error handler, handler outcome (ok / panic), plain handler vs Handle[T], controller registered or not, PanicRecovery, scope creation failing (provider closed / initializer fault on the second request), Handle with or without a scope in the context; two sequential requests. One scope per request, same scope for middlewares (in order), handler and Handle, closed exactly once on every exit path, error handler instead of handler, Handle's handlers exclusive, panics swallowed iff recovery, per-request instances distinct"
	}
	web := func(mod, name string, cov []string, desc string) harnessSpec {
		return harnessSpec{Name: name, Module: mod, Quick: map[string]int{"order_schemes": 1}, Thorough: map[string]int{"order_schemes": 2}, Covers: cov, Xval: 15, Desc: desc}
	}
	const webConcDesc = "(happens-before race detector on) two requests in flight at once through one middleware instance (two harness goroutines, the handler yields between two uses of its scope; every interleaving at those points, plus up to g2 involuntary context switches in front of any lock / atomic / sync.Map operation godi performs while creating, using and closing the two request scopes): no request loses or shares its scope or scoped instance, both scopes closed exactly once"
	webc := func(mod, name string, cov []string, desc string) harnessSpec {
		hs := web(mod, name, cov, desc)
		hs.Quick = map[string]int{"order_schemes": 1, "g2": 2}
		hs.Thorough = map[string]int{"order_schemes": 2, "g2": 3}
		return hs
	}
	properties = append(properties,
		propertySpec{ID: "C16", Harnesses: []harnessSpec{
			web("harness_http", "webh.H_Http", []string{"request_done"}, webDesc("net/http")),
			web("harness_gin", "webh.H_Gin", []string{"request_done"}, webDesc("gin (inside the real gin engine)")),
			webc("harness_gin", "webh.H_GinConc", []string{"both_served"}, webConcDesc),
			webc("harness_http", "webh.H_HttpConc", []string{"both_served"}, webConcDesc),
			web("harness_chi", "webh.H_Chi", []string{"request_done"}, webDesc("chi (net/http handler chain)")),
			webc("harness_chi", "webh.H_ChiConc", []string{"both_served"}, webConcDesc),
			webc("harness_echo", "webh.H_EchoConc", []string{"both_served"}, webConcDesc),
			webc("harness_fiber", "webh.H_FiberConc", []string{"both_served"}, webConcDesc),
			web("harness_echo", "webh.H_Echo", []string{"request_done"}, webDesc("echo (inside a real echo instance; handler may also return an error)")),
			web("harness_fiber", "webh.H_Fiber", []string{"request_done"}, webDesc("fiber (inside a real fiber app on a fasthttp RequestCtx, served like the fasthttp server: handler, then release of user values; optionally fiber's own recover middleware in front; scope in Locals and in the user context)")),
		}},
	)
	for i := range properties {
		if properties[i].ID == "C14" {
			properties[i].Harnesses = append(properties[i].Harnesses,
				web("harness_http", "webh.H_Http", []string{"request_done"}, "(C14 at the level of the request cycle) "+webDesc("net/http")+"; after every request, on every exit path: the request's scope is closed, its context cancelled, the goroutine count back to what it was before the first request"),
				web("harness_chi", "webh.H_Chi", []string{"request_done"}, "(C14 at the level of the request cycle) "+webDesc("chi")),
				web("harness_gin", "webh.H_Gin", []string{"request_done"}, "(C14 at the level of the request cycle) "+webDesc("gin")),
				web("harness_echo", "webh.H_Echo", []string{"request_done"}, "(C14 at the level of the request cycle) "+webDesc("echo")),
				web("harness_fiber", "webh.H_Fiber", []string{"request_done"}, "(C14 at the level of the request cycle) "+webDesc("fiber")),
			)
		}
	}
	hc := h("cont.H_Conc", conc(1), conc(1), []string{"both_done"}, 10, concDesc)
	hrace := h("cont.H_Conc", map[string]int{"ops": 1, "order_schemes": 1, "race": 1, "worlds": 4}, map[string]int{"ops": 1, "order_schemes": 1, "race": 1, "worlds": 4}, []string{"both_done"}, 0, concDesc+"; with the VM's happens-before (vector clock) race detector on every memory cell and map the container's own code touches; a race is confirmed by Go's race detector on free-running native goroutines")
	hrace2 := hrace
	hrace2.Quick = map[string]int{"ops": 1, "order_schemes": 1, "race": 1, "worlds": 1, "vars": 1}
	hrace2.Thorough = map[string]int{"ops": 2, "order_schemes": 1, "race": 1, "worlds": 1}
	const g2Desc = "; G2 scheduling: on top of the switches at user callbacks, up to `g2` involuntary context switches, each placed by the solver in front of any mutex acquisition, atomic operation or sync.Map operation executed by godi's own code (vm.isSyncOp) - interleavings between two container-internal synchronisation operations; counterexamples are replayed natively on a runner built from instrumented copies of godi's current sources (gosym instrument: the same points call the baton)"
	hg2 := h("cont.H_Conc", map[string]int{"ops": 1, "order_schemes": 1, "worlds": 1, "vars": 1, "g2": 1}, map[string]int{"ops": 1, "order_schemes": 1, "worlds": 1, "vars": 3, "g2": 1}, []string{"both_done"}, 0, concDesc+g2Desc)
	hnochild := h("cont.H_Conc", map[string]int{"ops": 1, "order_schemes": 1, "worlds": 2, "nochild": 2, "vars": 1, "cctx": 1}, map[string]int{"ops": 1, "order_schemes": 1, "worlds": 4, "nochild": 2, "vars": 3, "cctx": 1}, []string{"both_done"}, 0, concDesc+"; here the shared scope has NO child of its own when the operations start (a scope without children takes another path through Close); a scope handed out by a CreateScope that overlapped the Close of its parent must be closed (context cancelled, goroutines gone)")
	hg2w1 := h("cont.H_Conc", map[string]int{"ops": 1, "order_schemes": 1, "worlds": 2, "world_only": 1, "vars": 1, "g2": 1, "yieldclose": 0, "opset": 1}, map[string]int{"ops": 1, "order_schemes": 1, "worlds": 2, "world_only": 1, "vars": 3, "g2": 1, "yieldclose": 0, "opset": 0}, []string{"both_done"}, 0, concDesc+g2Desc+"; here: the world with a scoped initializer (scope creation runs user code and resolves its parameters), Close methods do not yield (the G1 x G2 product with yielding Close methods is out of reach: one operation pair alone has 370 000 schedules), operation pairs with at least one closing operation")
	hg2c := hg2 // C13's share of the G2 run: operation pairs with at least one closing operation
	hg2c.Quick = map[string]int{"ops": 1, "order_schemes": 1, "worlds": 1, "vars": 1, "g2": 1, "opset": 1}
	hcb := h("cont.H_CloseInCallback", map[string]int{"order_schemes": 1}, map[string]int{"order_schemes": 2}, []string{"callback_closed"}, 10, cbDesc)
	properties = append(properties,
		propertySpec{ID: "C09", Harnesses: []harnessSpec{hcb, hrace, hrace2, hg2, hg2w1,
			h("cont.H_SharedCodeConc", map[string]int{"rounds": 1, "race": 1, "g2": 1, "order_schemes": 1}, map[string]int{"rounds": 1, "race": 1, "g2": 1, "order_schemes": 2}, []string{"both_done"}, 0, "(race detector on, G2 scheduling with one pre-emption in front of any lock / atomic / sync.Map operation of godi, i.e. inside the analyzer's cache and the scope tables) constructors sharing code resolved by two goroutines in their own scopes; no race, no panic, no error, each service built by its own constructor"),
			h("cont.H_SharedCodeConc", map[string]int{"rounds": 2, "order_schemes": 1}, map[string]int{"rounds": 2, "order_schemes": 1}, []string{"both_done"}, 10, "(happens-before race detector on) scoped or transient services whose constructors share code - reflect.MakeFunc values of two different signatures (natively one code pointer, so the analysis cache keeps being rewritten after Build), or closures of one literal under two names with a yielding dependency - resolved alternately by two goroutines in their own scopes; every interleaving at the resolution boundaries; no race, no panic, no error, each service built by its own constructor"),
		}},
		propertySpec{ID: "C13", Harnesses: []harnessSpec{
			h("cont.H_Closed", map[string]int{"order_schemes": 2}, map[string]int{"order_schemes": 4}, []string{"close_node", "cancel_scope_ctx", "cancel_child_ctx"}, 20, closedDesc),
			hcb, hc, hg2c, hg2w1,
			h("cont.H_Dispose", with(dsp(0, 2, 4, 0, 1, 0, 1), "tree", 1), with(dsp(0, 2, 4, 1, 2, 0, 1), "tree", 1), dspCov, 0, dspDesc),
		}},
	)
	hchurn := h("cont.H_ScopeChurn", map[string]int{"L": 6, "order_schemes": 2}, map[string]int{"L": 8, "order_schemes": 4}, []string{"close_child", "open_children_at_close", "closed"}, 20, "the children of one scope (hanging off the provider or off another scope) come and go: a symbolic history of L operations {create a child and resolve a disposable scoped service in it, close the j-th child created so far}, then the scope, its outer scope or the provider is closed; after every child Close the siblings are untouched and keep working; the final Close reaches every child still open exactly once, descendants' instances before the scope's own, closed children are not closed again, every child reports disposed afterwards")
	for i := range properties {
		switch properties[i].ID {
		case "C10", "C11", "C13":
			properties[i].Harnesses = append(properties[i].Harnesses, hchurn)
		}
		switch properties[i].ID {
		case "C13", "C14":
			properties[i].Harnesses = append(properties[i].Harnesses, hnochild)
		}
	}
	for i := range properties {
		if properties[i].ID == "C05" {
			properties[i].Harnesses = append(properties[i].Harnesses, h("cont.H_AuxCycle", map[string]int{"order_schemes": 2}, map[string]int{"order_schemes": 4}, []string{"cyclic", "acyclic"}, 10, "a dependency cycle that runs through the SECOND output of a multi-output constructor (result object whose first field is plain / named / a value-group member, or a multi-return constructor; scoped or transient) - or the same set without the closing edge: Build reports a CircularDependencyError exactly in the cyclic case, everything resolves in the acyclic one"))
		}
	}
	hempty := h("cont.H_EmptyIn", map[string]int{"order_schemes": 1}, map[string]int{"order_schemes": 2}, []string{"built", "resolved"}, 10, "constructors whose only parameter is a parameter object WITHOUT any injectable field (only the embedded godi.In, or only ignored / unexported fields), as a service of symbolic lifetime with a consumer and optionally as a scoped initializer: the set has no dependency problem, so Build accepts it, scope creation works, every identity resolves, the parameter object arrives untouched")
	for i := range properties {
		switch properties[i].ID {
		case "C08", "C04":
			properties[i].Harnesses = append(properties[i].Harnesses, hempty)
		}
	}
	sibDesc := "one identity that a multi-return constructor ALSO produces has a registration of its own, with its own lifetime - because that output was removed and registered again (Add(pair), Remove(*B), Add(newB)), or because the pair lives under a name next to an unnamed registration (Add(pair, Name(x)), Add(newA)); lifetimes of both symbolic; L symbolic resolutions over the provider and two scopes mixing requests for the pair's outputs and for the independent identity, then a sweep: every value comes from the constructor registered for its identity and follows that registration's lifetime rule (instances, constructor invocation counts), whatever the other constructor did in that scope before"
	hsib := h("cont.H_ReplacedSibling", map[string]int{"L": 2, "order_schemes": 1}, map[string]int{"L": 4, "order_schemes": 2}, []string{"built", "history_done"}, 20, sibDesc)
	htg := h("cont.H_TwoGroups", map[string]int{"order_schemes": 1}, map[string]int{"order_schemes": 2}, []string{"resolved", "nested_resolved"}, 20, "three registrations of ONE element type, each a member of value group g1 or g2 (symbolic) with a symbolic lifetime, so that members of different groups sit at equal positions (optionally the last member of g1 itself consumes group g2: resolving one group resolves the other half-way); both groups resolved repeatedly in two scopes, directly (both orders) and through a scoped consumer with one field per group: each group holds exactly its own members in registration order, each built by its own constructor and following its own lifetime rule; constructor counts")
	for i := range properties {
		switch properties[i].ID {
		case "C01", "C02", "C03", "C04", "C17":
			properties[i].Harnesses = append(properties[i].Harnesses, hsib)
			if properties[i].ID == "C17" {
				continue
			}
			properties[i].Harnesses = append(properties[i].Harnesses, htg)
		}
	}
	for i := range properties {
		switch properties[i].ID {
		case "C02", "C10", "C12", "C03", "C18":
			hx := hc
			if properties[i].ID != "C10" {
				hx.Quick = map[string]int{"ops": 1, "order_schemes": 1, "worlds": 1}
			}
			properties[i].Harnesses = append(properties[i].Harnesses, hx)
			if properties[i].ID == "C02" {
				properties[i].Harnesses = append(properties[i].Harnesses, hg2)
			}
			if properties[i].ID == "C12" {
				properties[i].Harnesses = append(properties[i].Harnesses, h("cont.H_Conc", map[string]int{"ops": 1, "order_schemes": 1, "worlds": 1, "vars": 1, "g2": 1, "closeerr": 1, "opset": 4}, map[string]int{"ops": 1, "order_schemes": 1, "worlds": 1, "vars": 3, "g2": 2, "closeerr": 1, "opset": 4}, []string{"both_done", "same_node_closed_twice"}, 0, concDesc+g2Desc+"; here: instances whose Close fails exist in the shared scope and its child, both operations are closing operations (Close of the scope, its child, the provider, cancellation): of two concurrent Close calls on one node at most one returns the disposal error, nothing is closed twice or skipped"))
			}
			if properties[i].ID == "C10" {
				properties[i].Harnesses = append(properties[i].Harnesses, hcb)
			}
		}
	}
	for i := range properties {
		switch properties[i].ID {
		case "C05":
			properties[i].Harnesses = append(properties[i].Harnesses,
				h("cont.H_Build", bld(0, 3, 1), bld(0, 3, 2), append([]string{"model_cycle"}, buildCov...), 30, buildDesc),
				h("cont.H_Build", bld(1, 2, 2), bld(1, 2, 4), append([]string{"model_cycle"}, buildCov...), 0, buildDesc),
				h("cont.H_Build", bld(4, 2, 2), bld(4, 3, 2), buildCov, 0, buildDesc),
				h("cont.H_Rebuild", bld(3, 2, 1), bld(0, 2, 1), append([]string{"first_build_ok", "first_build_failed"}, buildCov...), 0, rebuildDesc),
				h("cont.H_Build", bld(6, 4, 1), bld(6, 4, 2), append([]string{"model_conflict"}, buildCov...), 0, buildDesc+"; profile 6: four registrations, interface-typed groups with several members in front of / behind a plain dependency"))
		case "C06":
			properties[i].Harnesses = append(properties[i].Harnesses,
				h("cont.H_Order", bld(3, 3, 2), bld(0, 3, 2), []string{"both_built", "both_failed_or_differ"}, 20, "the same world registered and built twice: registration order permuted (intra-group order kept) and another map-order scheme; verdict classes equal, wiring of both isomorphic to the model, every singleton constructed after the singletons it received"),
				h("cont.H_Order", bld(0, 2, 2), bld(0, 2, 4), []string{"both_built", "both_failed_or_differ"}, 0, "as above, every plain dependency shape on two registrations"),
				h("cont.H_Order", bld(1, 2, 2), bld(1, 2, 4), []string{"both_built", "both_failed_or_differ"}, 0, "as above on keyed / group / interface edges"),
				h("cont.H_Order", bld(2, 2, 2), bld(2, 2, 4), []string{"both_built", "both_failed_or_differ"}, 0, "as above on initializers and multi-output constructors (multi-return, result object) with dependencies"),
				h("cont.H_Build", bld(2, 2, 2), bld(2, 3, 1), buildCov, 0, buildDesc+"; under C06: what the container recorded as the dependencies of EVERY output of a multi-output constructor equals what the constructor declares (construction order is computed from it)"),
				h("cont.H_Order", bld(5, 4, 1), bld(5, 4, 2), []string{"both_built", "both_failed_or_differ"}, 0, "as above on four singleton registrations: consumers of an interface-typed value group, group members with plain dependencies of their own (a member may sit deeper in the graph than the members registered after it); four registration orders"),
				h("cont.H_Rebuild", with2(bld(5, 4, 1), "edit", 1), with2(bld(5, 4, 2), "edit", 1), append([]string{"first_build_ok", "first_build_failed"}, buildCov...), 0, "a collection is built while one (symbolic) registration of the world is still missing; that registration is added afterwards: the provider built before never runs its constructor and holds nothing scoped in a non-scoped instance; the second Build judges the full set like a fresh collection and returns the verdict class a fresh collection with the same registrations returns"),
				h("cont.H_KeyedLifetimes", map[string]int{"order_schemes": 2}, map[string]int{"order_schemes": 4}, []string{"built_twice", "model_conflict"}, 20, keyedLifeDesc),
				harnessSpec{Name: "graphh.H_C19", Module: "harness", Quick: map[string]int{"N": 3, "L": 1, "order_schemes": 2, "raw_start": 1}, Thorough: map[string]int{"N": 3, "L": 2, "order_schemes": 4, "raw_start": 1}, Covers: []string{"acyclic_state", "remove"}, Xval: 0,
					Desc: "(C06 at the graph component, after edits) the operation harness of C19 - start state from symbolic masks, then L operations {AddProvider, AddProviderDeferred+DetectCycles, RemoveProvider, Clear, query-only} - with C06's obligation after every step: TopologicalSort lists every node of the CURRENT graph exactly once, dependencies first"})
		}
	}
}

func init() {
	// thorough tier: every solver query of these (cheap) harnesses is mirrored to
	// z3 5.1 and cvc5 and the verdicts / value enumerations are diffed
	for i := range properties {
		switch properties[i].ID {
		case "C13", "C14", "C18", "C20", "C09":
			for j := range properties[i].Harnesses {
				properties[i].Harnesses[j].XSolvers = []string{"z3-new", "cvc5"}
			}
		}
	}
}

func findProperty(id string) *propertySpec {
	for i := range properties {
		if properties[i].ID == id {
			return &properties[i]
		}
	}
	return nil
}

// cmdSelftest runs the VM's own regression harnesses (models that were wrong
// once: atomic.Pointer[T] over unsafe.Pointer, maps.Clone): any failed
// assertion or aborted path means the engine must not be trusted.
func cmdSelftest() int {
	ld, err := loadHarness(filepath.Join(verifDir(), "harness"), []string{"./smoke"})
	if err != nil {
		fmt.Fprintln(os.Stderr, "selftest: cannot load:", err)
		return 2
	}
	entry := ld.m.Func(harnessMod+"/smoke", "H_Clone")
	if entry == nil {
		fmt.Fprintln(os.Stderr, "selftest: smoke.H_Clone not found")
		return 2
	}
	st := vm.Explore(vm.Config{Machine: ld.m, Entry: entry, Harness: "smoke.H_Clone", Workers: 1, Params: map[string]int{}, KnownOpen: map[string][]string{}})
	if st.Completed != 1 || st.Failed != 0 || st.Aborted != 0 {
		fmt.Printf("selftest FAILED: completed=%d failed=%d aborted=%d %v\n", st.Completed, st.Failed, st.Aborted, st.AbortMsgs)
		for _, f := range st.Failures {
			fmt.Println("  ", f.AssertID, f.Msg)
		}
		return 2
	}
	fmt.Println("selftest ok")
	return 0
}
