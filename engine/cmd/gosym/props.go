package main

// The table of checks: which harnesses decide which property, with the bounds
// of each tier. Bounds registered here are the largest that run clean inside
// the time budget on the unchanged tree.

var properties = []propertySpec{
	{
		ID: "C19",
		Harnesses: []harnessSpec{
			{Name: "graphh.H_C19", Module: "harness",
				Quick:    map[string]int{"N": 3, "L": 1, "order_schemes": 2},
				Thorough: map[string]int{"N": 3, "L": 2, "order_schemes": 6},
				Covers:   []string{"acyclic_state", "cyclic_state", "replace", "rejected_add", "deferred_add", "remove", "clear", "noop"},
				Xval:     40,
				Desc:     "start state from symbolic presence/dependency masks over N identities (types x keys x groups), then L operations {AddProvider, AddProviderDeferred+DetectCycles, RemoveProvider, Clear, query-only} with symbolic operands; every exported query compared with a reference digraph after each step"},
		},
	},
	{
		ID: "C05",
		Harnesses: []harnessSpec{
			{Name: "graphh.H_C05a_Deferred", Module: "harness",
				Quick:    map[string]int{"N": 3, "order_schemes": 6},
				Thorough: map[string]int{"N": 4, "order_schemes": 4},
				Covers:   []string{"cycle_reported", "acyclic"},
				Xval:     40,
				Desc:     "every digraph on N identities incl. self-loops (symbolic N*N edge mask) through AddProviderDeferred + DetectCycles; verdict vs transitive closure, reported path checked edge by edge, cached verdict, IsAcyclic"},
			{Name: "graphh.H_C05a_Immediate", Module: "harness",
				Quick:    map[string]int{"N": 3, "order_schemes": 2},
				Thorough: map[string]int{"N": 4, "order_schemes": 2},
				Covers:   []string{"rejected", "all_accepted"},
				Xval:     20,
				Desc:     "every digraph on N identities through immediate AddProvider, up to the first rejection"},
		},
	},
	{
		ID: "C06",
		Harnesses: []harnessSpec{
			{Name: "graphh.H_C06a_Topo", Module: "harness",
				Quick:    map[string]int{"N": 3, "order_schemes": 6},
				Thorough: map[string]int{"N": 4, "order_schemes": 4},
				Covers:   []string{"immediate", "deferred"},
				Xval:     40,
				Desc:     "every DAG on N identities (cyclic masks assumed away), immediate and deferred insertion; TopologicalSort lists each node once, dependencies first; memoised result re-checked"},
		},
	},
}

func findProperty(id string) *propertySpec {
	for i := range properties {
		if properties[i].ID == id {
			return &properties[i]
		}
	}
	return nil
}

func cmdSelftest() int { return 0 }
