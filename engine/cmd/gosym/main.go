// Command gosym drives the symbolic VM: it loads the harness module (and with
// it /repo's current working tree) from source, explores each harness of a
// property, confirms counterexamples by native replay and writes the evidence.
//
//	gosym check <property> [--tier quick|thorough]
//	gosym replay <property> <replay.json>
//	gosym run <harness> [k=v ...]        (debugging aid)
//	gosym selftest
//
// Exit status: 0 = held on everything explored (KNOWN-FINDING lines allowed),
// 1 = natively reproduced violation (VIOLATION line), 2 = could not decide.
package main

import (
	"encoding/json"
	"fmt"
	"os"
	"os/exec"
	"path/filepath"
	"runtime"
	"runtime/debug"
	"runtime/pprof"
	"sort"
	"strconv"
	"strings"
	"time"

	"gosym/vm"
)

const (
	harnessMod = "github.com/junioryono/godi/v4/zzverif"
	godiMod    = "github.com/junioryono/godi/v4"
)

func verifDir() string {
	if d := os.Getenv("VERIF_DIR"); d != "" {
		return d
	}
	exe, err := os.Executable()
	if err == nil {
		d := filepath.Dir(filepath.Dir(exe)) // <verif>/bin/gosym
		if _, err := os.Stat(filepath.Join(d, "harness")); err == nil {
			return d
		}
	}
	return "/verif"
}

func goEnv() []string {
	env := os.Environ()
	out := env[:0]
	for _, e := range env {
		if strings.HasPrefix(e, "GOFLAGS=") || strings.HasPrefix(e, "GOPROXY=") {
			continue
		}
		out = append(out, e)
	}
	return append(out, "GOFLAGS=-mod=mod", "GOPROXY=off")
}

func main() {
	debug.SetGCPercent(400)
	if len(os.Args) < 2 {
		fmt.Fprintln(os.Stderr, "usage: gosym check|replay|run|selftest ...")
		os.Exit(2)
	}
	switch os.Args[1] {
	case "check":
		os.Exit(cmdCheck(os.Args[2:]))
	case "replay":
		os.Exit(cmdReplay(os.Args[2:]))
	case "run":
		os.Exit(cmdRun(os.Args[2:]))
	case "selftest":
		os.Exit(cmdSelftest())
	case "instrument":
		os.Exit(cmdInstrument(os.Args[2:]))
	case "intrinsics":
		for _, n := range vm.IntrinsicNames() {
			fmt.Println(n)
		}
	default:
		fmt.Fprintln(os.Stderr, "unknown command", os.Args[1])
		os.Exit(2)
	}
}

func tierOf(args []string) (string, []string) {
	tier := os.Getenv("VERIF_TIER")
	var rest []string
	for i := 0; i < len(args); i++ {
		if args[i] == "--tier" && i+1 < len(args) {
			tier = args[i+1]
			i++
			continue
		}
		rest = append(rest, args[i])
	}
	if tier != "thorough" {
		tier = "quick"
	}
	return tier, rest
}

// workerCount: all cores, or GOSYM_WORKERS (for sweeps that run beside other work).
func workerCount() int {
	if n, err := strconv.Atoi(os.Getenv("GOSYM_WORKERS")); err == nil && n > 0 {
		return n
	}
	return runtime.NumCPU()
}

func seedOf() int64 {
	s, _ := strconv.ParseInt(os.Getenv("VERIF_SEED"), 10, 64)
	return s
}

type loaded struct {
	m      *vm.Machine
	loadS  float64
	module string
}

func loadHarness(moduleDir string, pkgs []string) (*loaded, error) {
	t0 := time.Now()
	m, err := vm.Load(moduleDir, goEnv(), pkgs...)
	if err != nil {
		return nil, err
	}
	m.TargetPrefix = godiMod
	prefixes := []string{godiMod, "context"}
	// package-level variables of a web framework that its handlers depend on
	switch filepath.Base(moduleDir) {
	case "harness_fiber":
		prefixes = append(prefixes, "github.com/gofiber/fiber/v2", "github.com/valyala/fasthttp", "time")
	}
	m.InterpretInitOf(prefixes...)
	return &loaded{m: m, loadS: time.Since(t0).Seconds(), module: moduleDir}, nil
}

// buildReplayBinary compiles the native replay runner of a harness module
// against /repo's current working tree.
var currentModuleDir string

func buildReplayBinary(moduleDir string) (string, error) {
	currentModuleDir = moduleDir
	out := filepath.Join(verifDir(), "bin", fmt.Sprintf("replay.%d", os.Getpid()))
	cmd := exec.Command("go", "build", "-o", out, "./cmd/replay")
	cmd.Dir = moduleDir
	cmd.Env = goEnv()
	b, err := cmd.CombinedOutput()
	if err != nil {
		return "", fmt.Errorf("building native replay runner: %v\n%s", err, b)
	}
	return out, nil
}

type nativeResult struct {
	exit   int
	fails  []string
	trace  []string
	inputs map[string]uint64
	out    string
	pruned bool
}

func runNative(bin, harness string, env []string, timeout time.Duration) nativeResult {
	cmd := exec.Command(bin, harness)
	cmd.Env = append(os.Environ(), env...)
	var res nativeResult
	done := make(chan struct{})
	var out []byte
	var err error
	go func() {
		out, err = cmd.CombinedOutput()
		close(done)
	}()
	select {
	case <-done:
	case <-time.After(timeout):
		if cmd.Process != nil {
			cmd.Process.Kill()
		}
		<-done
		res.exit = 124
		res.out = string(out)
		return res
	}
	res.out = string(out)
	if err != nil {
		if ee, ok := err.(*exec.ExitError); ok {
			res.exit = ee.ExitCode()
		} else {
			res.exit = 125
		}
	}
	res.inputs = map[string]uint64{}
	for _, line := range strings.Split(res.out, "\n") {
		switch {
		case strings.HasPrefix(line, "VRT-FAIL "):
			f := strings.Fields(line)
			if len(f) > 1 {
				res.fails = append(res.fails, f[1])
			}
		case strings.HasPrefix(line, "VRT-TRACE "):
			res.trace = append(res.trace, strings.TrimPrefix(line, "VRT-TRACE "))
		case strings.HasPrefix(line, "VRT-INPUT "):
			f := strings.Fields(line)
			if len(f) == 3 {
				v, _ := strconv.ParseInt(f[2], 10, 64)
				res.inputs[f[1]] = uint64(v)
			}
		case line == "VRT-PRUNED":
			res.pruned = true
		}
	}
	return res
}

type replayFile struct {
	Property string            `json:"property"`
	Harness  string            `json:"harness"`
	Module   string            `json:"module"`
	AssertID string            `json:"assert_id"`
	Msg      string            `json:"msg"`
	Env      map[string]uint64 `json:"env"`
	Params   map[string]int    `json:"params"`
	Trace    []vm.Decision     `json:"decisions"`
	Findings []string          `json:"findings,omitempty"`
	Note     string            `json:"note,omitempty"`
}

func writeReplay(prop string, h *harnessSpec, params map[string]int, f vm.Failure, n int) string {
	dir := filepath.Join(verifDir(), "replays")
	os.MkdirAll(dir, 0o755)
	path := filepath.Join(dir, fmt.Sprintf("%s-%s-%d.json", prop, strings.ReplaceAll(h.Name, ".", "_"), n))
	rf := replayFile{Property: prop, Harness: h.Name, Module: h.Module, AssertID: f.AssertID, Msg: f.Msg, Env: f.Env, Params: params, Trace: f.Trace, Findings: f.Findings,
		Note: "env: model of every symbolic input (|name|); order!k / sched!k are map-order scheme and scheduler choices of the VM run"}
	b, _ := json.MarshalIndent(rf, "", " ")
	os.WriteFile(path, b, 0o644)
	return path
}

// confirmNatively replays a counterexample against the natively compiled
// code. Map-order dependent failures are retried.
// raceBinaries: native runners built with -race, per harness module directory.
var raceBinaries = map[string]string{}

func buildRaceBinary(moduleDir string) (string, error) {
	if b, ok := raceBinaries[moduleDir]; ok {
		return b, nil
	}
	out := filepath.Join(verifDir(), "bin", fmt.Sprintf("replay-race.%d", os.Getpid()))
	cmd := exec.Command("go", "build", "-race", "-o", out, "./cmd/replay")
	cmd.Dir = moduleDir
	cmd.Env = goEnv()
	b, err := cmd.CombinedOutput()
	if err != nil {
		return "", fmt.Errorf("building -race replay runner: %v\n%s", err, b)
	}
	raceBinaries[moduleDir] = out
	return out, nil
}

// confirmRace: a data race found by the VM's happens-before detector is
// confirmed by Go's race detector on free-running native goroutines.
func confirmRace(moduleDir, harness, replayPath string, tries int) (bool, string) {
	bin, err := buildRaceBinary(moduleDir)
	if err != nil {
		return false, err.Error()
	}
	for t := 0; t < tries; t++ {
		r := runNative(bin, harness, []string{"VRT_REPLAY=" + replayPath, "VRT_NOBATON=1"}, 30*time.Second)
		if where := godiRace(r.out); where != "" {
			return true, fmt.Sprintf("go -race: DATA RACE after %d run(s): %s", t+1, where)
		}
	}
	return false, fmt.Sprintf("go -race reported nothing in %d free-running runs", tries)
}

// godiRace scans the race detector's reports and returns the first one whose two
// conflicting accesses are both made by godi's own code (top frame of each
// access stack in the module under test, not in the harness or its kit).
func godiRace(out string) string {
	lines := strings.Split(out, "\n")
	inGodi := func(fn string) bool {
		return strings.Contains(fn, "github.com/junioryono/godi/") && !strings.Contains(fn, "/zzverif")
	}
	for i := 0; i < len(lines); i++ {
		if !strings.Contains(lines[i], "WARNING: DATA RACE") {
			continue
		}
		var tops, locs []string
		for j := i + 1; j < len(lines) && !strings.HasPrefix(lines[j], "=================="); j++ {
			l := lines[j]
			if (strings.HasPrefix(l, "Read at ") || strings.HasPrefix(l, "Write at ") || strings.HasPrefix(l, "Previous read at ") || strings.HasPrefix(l, "Previous write at ") || strings.HasPrefix(l, "Atomic") || strings.HasPrefix(l, "Previous atomic")) && j+2 < len(lines) {
				tops = append(tops, strings.TrimSpace(lines[j+1]))
				f := strings.Fields(strings.TrimSpace(lines[j+2]))
				if len(f) > 0 {
					locs = append(locs, strings.Fields(l)[0]+" "+filepath.Base(f[0]))
				}
			}
		}
		if len(tops) == 2 && inGodi(tops[0]) && inGodi(tops[1]) {
			return tops[0] + " [" + strings.Join(locs, "] vs [") + "] " + tops[1]
		}
	}
	return ""
}

func confirmNatively(bin, harness, replayPath, assertID string, tries int) (bool, string) {
	if strings.HasSuffix(assertID, ".data_race") {
		return confirmRace(currentModuleDir, harness, replayPath, 300)
	}
	if replayUsesG2(replayPath) {
		// the schedule pre-empts between two synchronisation operations of the
		// container: replay on the runner built from the instrumented sources
		g2bin, err := buildG2Binary(currentModuleDir)
		if err != nil {
			return false, err.Error()
		}
		bin = g2bin
	}
	crashOK := strings.HasPrefix(assertID, "ENGINE.uncaught_panic") || strings.HasSuffix(assertID, ".nontermination") || strings.HasPrefix(assertID, "ENGINE.goroutine_panic") || strings.HasSuffix(assertID, ".no_panic")
	hangOK := strings.HasPrefix(assertID, "ENGINE.deadlock") || strings.HasSuffix(assertID, ".nontermination")
	last := ""
	extra := []string{}
	for t := 0; t < tries; t++ {
		r := runNative(bin, harness, append([]string{"VRT_REPLAY=" + replayPath}, extra...), 20*time.Second)
		if r.exit == 2 && !hangOK && len(extra) == 0 && strings.Contains(r.out, "all goroutines are asleep") {
			// the recorded schedule parks a goroutine on a container-internal
			// primitive the native baton cannot see: let the goroutines run free
			// (yields become runtime.Gosched) and look for the same failure
			extra = []string{"VRT_NOBATON=1"}
			continue
		}
		last = fmt.Sprintf("exit=%d fails=%v", r.exit, r.fails)
		switch {
		case r.exit == 3:
			return true, last
		case r.exit == 2 && crashOK:
			return true, last + " (native crash: " + firstLine(r.out) + ")"
		case r.exit == 2 && containsStr(r.fails, assertID):
			// the assertion failed natively as predicted; the run crashed later on
			return true, last + " (then the native run crashed: " + firstLine(r.out) + ")"
		case r.exit == 124 && hangOK:
			return true, last + " (native run did not terminate)"
		case r.exit == 2 && hangOK && strings.Contains(r.out, "all goroutines are asleep"):
			return true, last + " (Go runtime: all goroutines are asleep - deadlock)"
		case r.exit == 4:
			return false, "replay runner error: " + r.out
		}
	}
	return false, last
}

func replayUsesG2(path string) bool {
	b, err := os.ReadFile(path)
	if err != nil {
		return false
	}
	var rf replayFile
	if json.Unmarshal(b, &rf) != nil {
		return false
	}
	return rf.Params["g2"] > 0
}

func containsStr(xs []string, x string) bool {
	for _, y := range xs {
		if y == x {
			return true
		}
	}
	return false
}

func firstLine(s string) string {
	for _, l := range strings.Split(s, "\n") {
		if strings.HasPrefix(l, "panic:") || strings.HasPrefix(l, "fatal error:") || strings.Contains(l, "goroutine stack exceeds") {
			return l
		}
	}
	if i := strings.IndexByte(s, '\n'); i >= 0 {
		return s[:i]
	}
	return s
}

func cmdRun(args []string) int {
	if len(args) < 1 {
		fmt.Fprintln(os.Stderr, "usage: gosym run <pkg.Func> [k=v ...] [-w N] [-max N]")
		return 2
	}
	name := args[0]
	params := map[string]int{}
	concrete := map[string]uint64{}
	workers := workerCount()
	var maxPaths int64
	xvalN := 0
	var xsolvers []string
	module := "harness"
	confirm := false
	for _, a := range args[1:] {
		if strings.HasPrefix(a, "-w=") {
			workers, _ = strconv.Atoi(a[3:])
			continue
		}
		if strings.HasPrefix(a, "-max=") {
			maxPaths, _ = strconv.ParseInt(a[5:], 10, 64)
			continue
		}
		if strings.HasPrefix(a, "-x=") {
			xsolvers = strings.Split(a[3:], ",")
			continue
		}
		if strings.HasPrefix(a, "-prof=") {
			f, _ := os.Create(a[6:])
			pprof.StartCPUProfile(f)
			defer pprof.StopCPUProfile()
			continue
		}
		if strings.HasPrefix(a, "-xval=") {
			xvalN, _ = strconv.Atoi(a[6:])
			continue
		}
		if strings.HasPrefix(a, "-mod=") {
			module = a[5:]
			continue
		}
		if a == "-confirm" {
			confirm = true
			continue
		}
		if kv := strings.SplitN(a, "=", 2); len(kv) == 2 {
			if strings.HasPrefix(kv[0], "@") {
				v, _ := strconv.ParseInt(kv[1], 10, 64)
				concrete[kv[0][1:]] = uint64(v)
			} else {
				v, _ := strconv.Atoi(kv[1])
				params[kv[0]] = v
			}
		}
	}
	dot := strings.LastIndex(name, ".")
	pkg, fn := name[:dot], name[dot+1:]
	ld, err := loadHarness(filepath.Join(verifDir(), module), []string{"./" + pkg})
	if err != nil {
		fmt.Fprintln(os.Stderr, err)
		return 2
	}
	modPath := harnessMod
	if module != "harness" {
		modPath = harnessMod + "/" + strings.TrimPrefix(module, "harness_")
	}
	entry := ld.m.Func(modPath+"/"+pkg, fn)
	if entry == nil {
		fmt.Fprintln(os.Stderr, "no such harness function", name)
		return 2
	}
	kf, _ := loadKnownFindings()
	if xvalN > 0 {
		bin, err := buildReplayBinary(filepath.Join(verifDir(), module))
		if err != nil {
			fmt.Fprintln(os.Stderr, err)
			return 2
		}
		defer os.Remove(bin)
		h := harnessSpec{Name: name, Module: module}
		ok, bad := xval(ld, entry, &h, params, bin, xvalN, seedOf(), kf)
		fmt.Printf("xval: %d/%d identical\n", ok, xvalN)
		for _, b := range bad {
			fmt.Println("MISMATCH", b)
		}
		return 0
	}
	st := vm.Explore(vm.Config{Machine: ld.m, Entry: entry, Harness: name, Workers: workers, Params: params, MaxPaths: maxPaths, KnownOpen: kf.openMap(), Concrete: concrete, XSolvers: xsolvers})
	if len(xsolvers) > 0 {
		fmt.Printf("cross-check: %v mirrored queries=%d disagreements=%d\n", xsolvers, st.XQueries, st.XDisagree)
	}
	printStats(st, ld.loadS)
	for i, f := range st.Failures {
		if i < 10 || os.Getenv("GOSYM_ALLFAIL") != "" {
			fmt.Printf("FAIL %s %s env=%v findings=%v\n", f.AssertID, f.Msg, f.Env, f.Findings)
		}
		if confirm && i < 3 {
			bin, err := buildReplayBinary(filepath.Join(verifDir(), module))
			if err != nil {
				fmt.Fprintln(os.Stderr, err)
				return 2
			}
			h := harnessSpec{Name: name, Module: module}
			for k, v := range concrete {
				f.Env["|"+k+"|"] = v
			}
			path := writeReplay("DBG", &h, params, f, i)
			ok, how := confirmNatively(bin, name, path, f.AssertID, 50)
			fmt.Printf("  native confirmation: %v %s (%s)\n", ok, how, path)
			os.Remove(bin)
		}
	}
	for _, b := range g2Binaries {
		os.Remove(b)
	}
	for k, f := range st.KnownSample {
		fmt.Printf("KNOWN %s: %s %s env=%v\n", k, f.AssertID, f.Msg, f.Env)
	}
	if len(st.Failures) > 0 {
		return 1
	}
	return 0
}

func printStats(st *vm.Stats, loadS float64) {
	fmt.Printf("load=%.1fs wall=%.2fs runs=%d completed=%d pruned=%d failed=%d aborted=%d decisions=%d queries=%d (sat %d unsat %d unknown %d) solver=%.2fs exhausted=%v funcs=%d\n",
		loadS, st.Wall.Seconds(), st.Runs, st.Completed, st.Pruned, st.Failed, st.Aborted, st.Decisions, st.Queries, st.Sat, st.Unsat, st.Unknown, st.SolverTime.Seconds(), st.Exhausted, len(st.Funcs))
	var ab []string
	for k, n := range st.AbortMsgs {
		ab = append(ab, fmt.Sprintf("  ABORT x%d: %s", n, k))
	}
	sort.Strings(ab)
	for i, a := range ab {
		if i < 10 {
			fmt.Println(a)
		}
	}
	var cv []string
	for k, n := range st.Covers {
		cv = append(cv, fmt.Sprintf("%s=%d", k, n))
	}
	sort.Strings(cv)
	fmt.Println("covers:", strings.Join(cv, " "))
	var kn []string
	for k, n := range st.KnownSeen {
		kn = append(kn, fmt.Sprintf("%s=%d", k, n))
	}
	sort.Strings(kn)
	if len(kn) > 0 {
		fmt.Println("known findings seen:", strings.Join(kn, " "))
	}
}
