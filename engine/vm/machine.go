package vm

import (
	"fmt"
	"go/types"
	"strings"
	"sync"

	"golang.org/x/tools/go/packages"
	"golang.org/x/tools/go/ssa"
	"golang.org/x/tools/go/ssa/ssautil"
)

// Machine is the immutable (after Load) part shared by all runs and workers:
// the SSA program built from the current source tree and lookup tables.
type Machine struct {
	prog               *ssa.Program
	pkgs               []*ssa.Package
	sizes              types.Sizes
	reflectPackage     *ssa.Package
	runtimeErrorString types.Type

	fnInfos     sync.Map // *ssa.Function -> *fnInfo
	mu          sync.Mutex
	fakeMethods map[string]*ssa.Function
	fakeNames   map[*ssa.Function]string

	initPkgs map[*ssa.Package]bool // packages whose init() is interpreted
	initOrder []*ssa.Package

	maxDepth int
	maxSteps int64

	// Prefixes of package paths considered "code under analysis" for the
	// functions_encoded evidence.
	TargetPrefix string
}

// Load type-checks patterns in dir (module root of the harness) from source,
// builds SSA with generics instantiated.
func Load(dir string, env []string, patterns ...string) (*Machine, error) {
	cfg := &packages.Config{Mode: packages.LoadAllSyntax, Dir: dir, Env: env}
	pkgs, err := packages.Load(cfg, patterns...)
	if err != nil {
		return nil, err
	}
	var errs []string
	packages.Visit(pkgs, nil, func(p *packages.Package) {
		for _, e := range p.Errors {
			errs = append(errs, e.Error())
		}
	})
	if len(errs) > 0 {
		return nil, fmt.Errorf("load errors:\n%s", strings.Join(errs, "\n"))
	}
	prog, spkgs := ssautil.AllPackages(pkgs, ssa.InstantiateGenerics)
	prog.Build()
	m := &Machine{prog: prog, sizes: &types.StdSizes{WordSize: 8, MaxAlign: 8}, maxDepth: 3000, maxSteps: 50_000_000}
	for _, p := range spkgs {
		if p != nil {
			m.pkgs = append(m.pkgs, p)
		}
	}
	rt := prog.ImportedPackage("runtime")
	if rt == nil {
		return nil, fmt.Errorf("program does not include package runtime")
	}
	m.runtimeErrorString = rt.Type("errorString").Object().Type()
	m.initReflect()
	m.initPkgs = map[*ssa.Package]bool{}
	return m, nil
}

// InterpretInitOf marks the packages (by path prefix) whose init functions
// are interpreted at the start of every run; all other packages keep zeroed
// globals and their functions are reached only through intrinsics or as pure
// library code.
func (m *Machine) InterpretInitOf(prefixes ...string) {
	seen := map[*ssa.Package]bool{}
	var visit func(p *ssa.Package)
	visit = func(p *ssa.Package) {
		if seen[p] {
			return
		}
		seen[p] = true
		for _, imp := range p.Pkg.Imports() {
			if ip := m.prog.Package(imp); ip != nil {
				visit(ip)
			}
		}
		for _, pre := range prefixes {
			if strings.HasPrefix(p.Pkg.Path(), pre) {
				m.initPkgs[p] = true
				m.initOrder = append(m.initOrder, p)
				return
			}
		}
	}
	for _, p := range m.pkgs {
		visit(p)
	}
}

func (m *Machine) interpretInit(p *ssa.Package) bool { return m.initPkgs[p] }

// Func finds a package-level function "pkgpath.Name".
func (m *Machine) Func(pkgPath, name string) *ssa.Function {
	for _, p := range m.prog.AllPackages() {
		if p.Pkg.Path() == pkgPath {
			return p.Func(name)
		}
	}
	return nil
}

// nativeFn is a function value implemented by the VM itself (context cancel
// functions, reflect.MakeFunc results).
type nativeFn struct {
	name string
	code uintptr // what reflect.Value.Pointer reports
	ctx  *vmCtx  // for cancel functions: the context they keep alive
	f    func(fr *frame, args []value) value
}

// ---- abnormal path endings (host panics that target code cannot recover)

type vmAbort interface{ vmAbort() }

// vmUnsupported: the VM met something it does not model. The path is aborted
// and the check reports an infrastructure failure (never a pass).
type vmUnsupported string

func (vmUnsupported) vmAbort() {}

// vmLimit: call-depth or step bound exceeded.
type vmLimit struct{ what string }

func (vmLimit) vmAbort() {}

// vmPathEnd: Assume(false), assertion failure that ends the path, or an
// infeasible prefix.
type vmPathEnd struct{ why string }

func (vmPathEnd) vmAbort() {}

// vmKill unwinds a parked goroutine when the run is over.
type vmKill struct{}

func (vmKill) vmAbort() {}

func isVMAbort(p interface{}) bool {
	_, ok := p.(vmAbort)
	return ok
}

// targetRuntimeError builds the panic value of a Go run-time error so that
// target code can recover() it like the real thing.
type targetRuntimeErr struct{ msg string }

func (e targetRuntimeErr) Error() string { return "runtime error: " + e.msg }
func (e targetRuntimeErr) RuntimeError() {}

func targetRuntimeError(msg string) error { return targetRuntimeErr{msg} }

func mustDeref(t types.Type) types.Type {
	return t.Underlying().(*types.Pointer).Elem()
}

// Prog exposes the SSA program (read-only use).
func (m *Machine) Prog() *ssa.Program { return m.prog }
