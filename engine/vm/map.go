// Copyright 2013 The Go Authors. All rights reserved.
// Use of this source code is governed by a BSD-style
// license that can be found in the LICENSE file.
//
// Modified for gosym: every Go map is an insertion-ordered table so that a
// run of the VM is a deterministic function of its decision vector. The
// iteration order exposed to the program is the insertion order composed with
// the run's order scheme (see order.go), which stands in for Go's randomised
// map iteration.

package vm

import (
	"go/types"
)

type entry struct {
	key     value
	value   value
	deleted bool
}

type hashmap struct {
	keyType types.Type
	ents    []*entry
	index   map[int][]int // hash -> positions in ents
	length  int
}

// makeMap returns an empty initialized map of key type kt.
func makeMap(kt types.Type, reserve int64) value {
	return &hashmap{keyType: kt, index: make(map[int][]int)}
}

func (m *hashmap) find(k value) (int, int) {
	h := hash(m.keyType, m.keyType, k)
	for _, p := range m.index[h] {
		e := m.ents[p]
		if !e.deleted && equals(m.keyType, k, e.key) {
			return p, h
		}
	}
	return -1, h
}

// delete removes the association for key k, if any.
func (m *hashmap) delete(k value) {
	if m == nil {
		return
	}
	p, h := m.find(k)
	if p < 0 {
		return
	}
	m.ents[p].deleted = true
	lst := m.index[h]
	for i, q := range lst {
		if q == p {
			lst = append(lst[:i:i], lst[i+1:]...)
			break
		}
	}
	if len(lst) == 0 {
		delete(m.index, h)
	} else {
		m.index[h] = lst
	}
	m.length--
	// compact when more than half of the slots are dead
	if len(m.ents) > 8 && m.length*2 < len(m.ents) {
		m.compact()
	}
}

func (m *hashmap) compact() {
	ents := make([]*entry, 0, m.length)
	m.index = make(map[int][]int)
	for _, e := range m.ents {
		if !e.deleted {
			h := hash(m.keyType, m.keyType, e.key)
			m.index[h] = append(m.index[h], len(ents))
			ents = append(ents, e)
		}
	}
	m.ents = ents
}

// lookup returns the value associated with key k, if present, or
// value(nil) otherwise.
func (m *hashmap) lookup(k value) value {
	if m == nil {
		// hashing must still panic for unhashable dynamic keys
		return nil
	}
	p, _ := m.find(k)
	if p < 0 {
		return nil
	}
	return m.ents[p].value
}

// insert updates the map to associate key k with value v.
func (m *hashmap) insert(k value, v value) {
	if m == nil {
		panic(targetRuntimeError("assignment to entry in nil map"))
	}
	p, h := m.find(k)
	if p >= 0 {
		m.ents[p].value = v
		return
	}
	m.index[h] = append(m.index[h], len(m.ents))
	m.ents = append(m.ents, &entry{key: k, value: v})
	m.length++
}

// len returns the number of key/value associations in the map.
func (m *hashmap) len() int {
	if m != nil {
		return m.length
	}
	return 0
}

// live returns the live entries in insertion order.
func (m *hashmap) live() []*entry {
	if m == nil {
		return nil
	}
	out := make([]*entry, 0, m.length)
	for _, e := range m.ents {
		if !e.deleted {
			out = append(out, e)
		}
	}
	return out
}

// hashmapIter iterates over a snapshot of the key order taken at range start;
// as in Go, entries deleted during iteration are skipped; entries added during
// iteration are not visited (permitted by the spec).
type hashmapIter struct {
	ents []*entry
	pos  int
}

func (it *hashmapIter) next() tuple {
	for it.pos < len(it.ents) {
		e := it.ents[it.pos]
		it.pos++
		if e.deleted {
			continue
		}
		return []value{true, e.key, e.value}
	}
	return []value{false, nil, nil}
}
