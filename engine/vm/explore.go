package vm

// Exploration by re-execution (DART style). A path is identified by its
// decision vector; a queued alternative is explored by running the harness
// again from the start under the decision prefix. Workers share a work list;
// each owns one VM state per run and one persistent solver process.

import (
	"fmt"
	"go/token"
	"go/types"
	"os"
	"sort"
	"strings"
	"sync"
	"time"

	"golang.org/x/tools/go/ssa"
)

// Decision is one element of a decision vector.
type Decision struct {
	Kind  string `json:"k"`           // "br" branch | "eq" concretisation step
	Taken bool   `json:"t"`           // branch: condition true; eq: x == Val
	Val   uint64 `json:"v,omitempty"` // eq: the value
	Site  string `json:"s,omitempty"`
}

// Failure is an assertion failure found on a path.
type Failure struct {
	AssertID string            `json:"assert_id"`
	Msg      string            `json:"msg"`
	Env      map[string]uint64 `json:"env"`       // model of every declared symbolic input
	EnvOrder []string          `json:"env_order"` // declaration order
	Trace    []Decision        `json:"decisions"`
	Findings []string          `json:"findings"` // carve-outs active on this path
	Known    string            `json:"known,omitempty"`
	Harness  string            `json:"harness"`
}

// Config of one exploration.
type Config struct {
	Machine   *Machine
	Entry     *ssa.Function
	Harness   string
	Workers   int
	MaxPaths  int64 // 0 = unlimited
	Deadline  time.Time
	Solver    string
	XSolvers  []string                 // mirrored back-ends (verdicts diffed)
	Params    map[string]int           // vrt.Param values (bounds chosen by the tier)
	KnownOpen map[string][]string      // finding id -> assertion ids it excuses
	Concrete  map[string]uint64        // fixed inputs (xval / replay in VM): no solver decisions for these
	Samples   int
	MaxFanout int
	// translator validation: collect "trace + failed assertion ids" per path,
	// and never end a path at a failing assertion
	CollectObs       bool
	StopOnObs        string // with CollectObs: stop exploring once a run produced exactly this observation
	AllFailuresKnown bool
	// OwnPrefixes: assertion-id prefixes this check is responsible for; other
	// failures are recorded as foreign (they belong to another property's
	// check) and do not end the path.
	OwnPrefixes []string
}

// Stats are the measured facts of one exploration.
type Stats struct {
	Completed   int64 // paths that ran to the end of the harness
	Pruned      int64 // ended by Assume(false) / infeasible / exhausted concretisation
	Failed      int64 // ended by a violation
	Aborted     int64 // unsupported / limit / solver-unknown
	Decisions   int64
	Runs        int64
	Queries     int64
	Sat, Unsat  int64
	Unknown     int64
	SolverTime  time.Duration
	XQueries    int64
	XDisagree   int64
	Covers      map[string]int64
	Failures    []Failure
	KnownSeen   map[string]int64
	KnownSample map[string]Failure
	AbortMsgs   map[string]int64
	Funcs       map[string]int // encoded function -> instruction count
	Intrinsics  map[string]int64
	Samples     []map[string]uint64
	Wall        time.Duration
	Exhausted   bool // work list ran empty
	MaxTrace    int
	Foreign     int64
	Obs         []string
}

type workItem struct {
	prefix []Decision
}

type Explorer struct {
	cfg   Config
	mu    sync.Mutex
	cond  *sync.Cond
	work  []workItem
	busy  int
	stop  bool
	stats Stats
}

func Explore(cfg Config) *Stats {
	if cfg.Workers <= 0 {
		cfg.Workers = 1
	}
	if cfg.Solver == "" {
		cfg.Solver = "z3"
	}
	if cfg.Samples == 0 {
		cfg.Samples = 5
	}
	ex := &Explorer{cfg: cfg}
	ex.cond = sync.NewCond(&ex.mu)
	ex.stats.Covers = map[string]int64{}
	ex.stats.KnownSeen = map[string]int64{}
	ex.stats.KnownSample = map[string]Failure{}
	ex.stats.AbortMsgs = map[string]int64{}
	ex.stats.Funcs = map[string]int{}
	ex.stats.Intrinsics = map[string]int64{}
	ex.work = []workItem{{}}
	t0 := time.Now()
	var wg sync.WaitGroup
	for w := 0; w < cfg.Workers; w++ {
		wg.Add(1)
		go func(w int) {
			defer wg.Done()
			ex.worker(w)
		}(w)
	}
	wg.Wait()
	ex.stats.Wall = time.Since(t0)
	ex.stats.Exhausted = len(ex.work) == 0 && !ex.stop
	return &ex.stats
}

func (ex *Explorer) worker(id int) {
	sv, err := startSolver(ex.cfg.Solver)
	if err != nil {
		ex.mu.Lock()
		ex.stats.AbortMsgs["solver start: "+err.Error()]++
		ex.stats.Aborted++
		ex.stop = true
		ex.cond.Broadcast()
		ex.mu.Unlock()
		return
	}
	defer sv.close()
	var xs []*solverProc
	for _, n := range ex.cfg.XSolvers {
		if x, err := startSolver(n); err == nil {
			xs = append(xs, x)
			defer x.close()
		}
	}
	for {
		ex.mu.Lock()
		for len(ex.work) == 0 && ex.busy > 0 && !ex.stop {
			ex.cond.Wait()
		}
		if ex.stop || len(ex.work) == 0 {
			ex.mu.Unlock()
			break
		}
		it := ex.work[len(ex.work)-1]
		ex.work = ex.work[:len(ex.work)-1]
		ex.busy++
		ex.mu.Unlock()

		r := ex.runOne(sv, xs, it)

		ex.mu.Lock()
		ex.busy--
		ex.merge(r)
		if ex.cfg.MaxPaths > 0 && ex.stats.Runs >= ex.cfg.MaxPaths {
			ex.stop = true
		}
		if !ex.cfg.Deadline.IsZero() && time.Now().After(ex.cfg.Deadline) {
			ex.stop = true
		}
		ex.cond.Broadcast()
		ex.mu.Unlock()
	}
	ex.mu.Lock()
	ex.stats.Queries += int64(sv.Queries)
	ex.stats.Sat += int64(sv.Sat)
	ex.stats.Unsat += int64(sv.Unsat)
	ex.stats.Unknown += int64(sv.Unknown)
	ex.stats.SolverTime += sv.Dur
	for _, x := range xs {
		ex.stats.XQueries += int64(x.Queries)
	}
	ex.cond.Broadcast()
	ex.mu.Unlock()
}

func (ex *Explorer) merge(r *runState) {
	st := &ex.stats
	st.Runs++
	st.Decisions += int64(len(r.trace))
	if len(r.trace) > st.MaxTrace {
		st.MaxTrace = len(r.trace)
	}
	st.XDisagree += r.xdisagree
	switch r.end {
	case "completed":
		st.Completed++
	case "pruned":
		st.Pruned++
	case "failed":
		st.Failed++
	default:
		st.Aborted++
		st.AbortMsgs[r.end+": "+r.endMsg]++
	}
	for c := range r.covers {
		st.Covers[c]++
	}
	for f, n := range r.funcs {
		st.Funcs[f] = n
	}
	for f, n := range r.intrinsics {
		st.Intrinsics[f] += n
	}
	for _, f := range r.failures {
		if f.Known == "foreign" {
			st.Foreign++
			continue
		}
		if f.Known != "" {
			st.KnownSeen[f.Known]++
			if _, ok := st.KnownSample[f.Known]; !ok {
				st.KnownSample[f.Known] = f
			}
		} else {
			if len(st.Failures) < 50 {
				st.Failures = append(st.Failures, f)
			}
		}
	}
	if ex.cfg.CollectObs && (r.end == "completed" || r.end == "failed") {
		ids := map[string]bool{}
		var idl []string
		for _, f := range r.failures {
			if !ids[f.AssertID] {
				ids[f.AssertID] = true
				idl = append(idl, f.AssertID)
			}
		}
		sort.Strings(idl)
		o := strings.Join(r.obs, "\n") + "\n#" + strings.Join(idl, ",")
		dup := false
		for _, x := range st.Obs {
			if x == o {
				dup = true
			}
		}
		if !dup {
			st.Obs = append(st.Obs, o)
		}
		if ex.cfg.StopOnObs != "" && o == ex.cfg.StopOnObs {
			ex.stop = true
		}
	}
	if r.end == "completed" && len(st.Samples) < ex.cfg.Samples && r.sample != nil {
		st.Samples = append(st.Samples, r.sample)
	}
	ex.work = append(ex.work, r.alts...)
}

// runState is the exploration-side state of one run.
type runState struct {
	ex     *Explorer
	sv     *solverProc
	xs     []*solverProc
	prefix []Decision
	pos    int
	trace  []Decision
	alts   []workItem

	declOrder []string
	declKind  map[string]string // name -> "bv64" | "bool"
	nameCtr   int
	choiceCtr int

	covers     map[string]bool
	findings   map[string]bool
	failures   []Failure
	funcs      map[string]int
	intrinsics map[string]int64
	limitID    string
	end        string
	endMsg     string
	sample     map[string]uint64
	xdisagree  int64
	orderVal   int // -1 = not decided yet
	obs        []string
}

func (ex *Explorer) runOne(sv *solverProc, xs []*solverProc, it workItem) (r *runState) {
	r = &runState{ex: ex, sv: sv, xs: xs, prefix: it.prefix,
		declKind: map[string]string{}, covers: map[string]bool{}, findings: map[string]bool{},
		funcs: map[string]int{}, intrinsics: map[string]int64{}, orderVal: -1}
	sv.reset()
	for _, x := range xs {
		x.reset()
	}
	i := newInterpreter(ex.cfg.Machine, r)
	defer i.sched.killAll()
	defer func() {
		p := recover()
		if p == nil {
			if r.end == "" {
				r.end = "completed"
				r.sample = r.modelOrNil()
			}
			return
		}
		switch p := p.(type) {
		case vmPathEnd:
			if r.end == "" {
				r.end = "pruned"
				r.endMsg = p.why
			}
		case vmUnsupported:
			r.end, r.endMsg = "unsupported", string(p)
		case vmLimit:
			if r.limitID != "" {
				r.fail(r.limitID, "VM "+p.what+" bound exceeded (non-termination witness)")
				if r.end == "" {
					r.end = "pruned"
				}
			} else {
				r.end, r.endMsg = "limit", p.what
			}
		case targetPanic:
			r.fail("ENGINE.uncaught_panic", "uncaught panic in harness: "+toString(p.v))
			r.end = "failed"
		default:
			// Go run-time errors of the target look like host run-time errors
			// here; so do VM bugs. Both are reported as uncaught panics and
			// must survive native replay to count.
			r.fail("ENGINE.uncaught_panic", "uncaught panic: "+panicString(p))
			r.end = "failed"
		}
	}()
	for _, p := range ex.cfg.Machine.initOrder {
		if f := p.Func("init"); f != nil {
			call(i, nil, token.NoPos, f, nil)
		}
	}
	call(i, nil, token.NoPos, ex.cfg.Entry, nil)
	return r
}

func newInterpreter(m *Machine, r *runState) *interpreter {
	i := &interpreter{Machine: m, globals: map[*ssa.Global]*value{}, run: r,
		syncMaps: map[*value]*hashmap{}, mutexes: map[*value]*vmMutex{}, builders: map[*value]*[]byte{}}
	i.sched = newScheduler(i)
	i.raceInit()
	return i
}

func (r *runState) functionEntered(fi *fnInfo) {
	if _, ok := r.funcs[fi.name]; !ok {
		r.funcs[fi.name] = fi.instrs
	}
}

// ---- solver plumbing

func (r *runState) sendAll(s string) {
	r.sv.send(s)
	for _, x := range r.xs {
		x.send(s)
	}
}

func (r *runState) assert(term string) { r.sendAll("(assert " + term + ")") }

func (r *runState) check(term string) satResult {
	res := r.sv.check(term)
	for _, x := range r.xs {
		xr := x.check(term)
		if xr != res && xr != resUnknown && res != resUnknown {
			r.xdisagree++
			fmt.Fprintf(os.Stderr, "SOLVER DISAGREEMENT %s=%v %s=%v on %s\n", r.sv.name, res, x.name, xr, term)
		}
	}
	if res == resUnknown {
		panic(vmUnsupported("solver answered unknown/error for " + truncate(term, 200)))
	}
	return res
}

func truncate(s string, n int) string {
	if len(s) > n {
		return s[:n] + "..."
	}
	return s
}

func (r *runState) declare(name, sort string) {
	if _, ok := r.declKind[name]; ok {
		panic(vmUnsupported("symbolic input declared twice: " + name))
	}
	r.declKind[name] = sort
	r.declOrder = append(r.declOrder, name)
	if sort == "bool" {
		r.sendAll("(declare-const " + name + " Bool)")
	} else {
		r.sendAll("(declare-const " + name + " (_ BitVec 64))")
	}
}

// name gives a large term a name so that later uses share it.
func (r *runState) name(term string, bits int) string {
	if len(term) < 120 {
		return term
	}
	r.nameCtr++
	n := fmt.Sprintf("t!%d", r.nameCtr)
	r.sendAll(fmt.Sprintf("(define-fun %s () (_ BitVec %d) %s)", n, bits, term))
	return n
}

func (r *runState) nameBool(term string) string {
	if len(term) < 120 {
		return term
	}
	r.nameCtr++
	n := fmt.Sprintf("t!%d", r.nameCtr)
	r.sendAll(fmt.Sprintf("(define-fun %s () Bool %s)", n, term))
	return n
}

// model returns the value of every declared input under the current path
// condition (which must be satisfiable).
func (r *runState) model() (map[string]uint64, bool) {
	if len(r.declOrder) == 0 {
		return map[string]uint64{}, true
	}
	if r.sv.checkSat() != resSat {
		return nil, false
	}
	vals, ok := r.sv.getValues(r.declOrder)
	if !ok {
		return nil, false
	}
	out := map[string]uint64{}
	for n, s := range vals {
		if r.declKind[n] == "bool" {
			if s == "true" {
				out[n] = 1
			} else {
				out[n] = 0
			}
			continue
		}
		v, ok := parseBV(s)
		if !ok {
			return nil, false
		}
		out[n] = v
	}
	return out, true
}

func (r *runState) modelOrNil() map[string]uint64 {
	r.ex.mu.Lock()
	need := len(r.ex.stats.Samples) < r.ex.cfg.Samples
	r.ex.mu.Unlock()
	if !need {
		return nil
	}
	m, _ := r.model()
	return m
}

// ---- decisions

func (r *runState) record(d Decision) {
	r.trace = append(r.trace, d)
}

func (r *runState) pushAlt(d Decision) {
	p := make([]Decision, len(r.trace)+1)
	copy(p, r.trace)
	p[len(r.trace)] = d
	r.alts = append(r.alts, workItem{prefix: p})
}

// decide resolves a symbolic condition to a concrete truth value, forking.
func (r *runState) decide(c symBool, site string) bool {
	if r.pos < len(r.prefix) {
		d := r.prefix[r.pos]
		r.pos++
		if d.Kind != "br" {
			panic(vmUnsupported("replay divergence: expected branch decision at " + site))
		}
		if d.Taken {
			r.assert(c.term)
		} else {
			r.assert("(not " + c.term + ")")
		}
		r.record(d)
		return d.Taken
	}
	t := r.check(c.term) == resSat
	f := r.check("(not "+c.term+")") == resSat
	switch {
	case t && f:
		r.pushAlt(Decision{Kind: "br", Taken: false, Site: site})
		r.record(Decision{Kind: "br", Taken: true, Site: site})
		r.pos++
		r.prefix = r.trace
		r.assert(c.term)
		return true
	case t:
		r.record(Decision{Kind: "br", Taken: true, Site: site})
		r.pos++
		r.prefix = r.trace
		r.assert(c.term)
		return true
	case f:
		r.record(Decision{Kind: "br", Taken: false, Site: site})
		r.pos++
		r.prefix = r.trace
		r.assert("(not " + c.term + ")")
		return false
	}
	panic(vmPathEnd{"infeasible"})
}

func (r *runState) decideBranch(c symBool, instr *ssa.If) bool {
	return r.decide(c, "")
}

// concretize enumerates the feasible values of a symbolic integer under the
// current path condition (all-SAT over that term): each value is one outcome
// of the decision; the first is followed, the others are queued.
func (r *runState) concretize(x symInt) value {
	bits := kindBits(x.kind)
	t := x.term
	if r.pos < len(r.prefix) {
		d := r.prefix[r.pos]
		r.pos++
		if d.Kind != "val" {
			panic(vmUnsupported("replay divergence: expected value decision"))
		}
		r.record(d)
		r.assert("(= " + t + " " + bvconst(d.Val, bits) + ")")
		return concreteOfKind(x.kind, d.Val)
	}
	r.nameCtr++
	tmp := fmt.Sprintf("c!%d", r.nameCtr)
	r.sendAll(fmt.Sprintf("(define-fun %s () (_ BitVec %d) %s)", tmp, bits, t))
	var vals []uint64
	r.sendAll("(push 1)")
	for {
		res := r.sv.checkSat()
		if res == resUnknown {
			panic(vmUnsupported("solver unknown during concretisation"))
		}
		if res == resUnsat {
			break
		}
		m, ok := r.sv.getValues([]string{tmp})
		if !ok {
			panic(vmUnsupported("get-value failed during concretisation"))
		}
		v, ok := parseBV(m[tmp])
		if !ok {
			panic(vmUnsupported("cannot parse model value " + m[tmp]))
		}
		vals = append(vals, v)
		if len(vals) > r.ex.cfg.maxFanout() {
			panic(vmUnsupported("concretisation fan-out exceeds bound"))
		}
		r.sv.send("(assert (not (= " + tmp + " " + bvconst(v, bits) + ")))")
	}
	r.sendAll("(pop 1)")
	if len(vals) == 0 {
		panic(vmPathEnd{"infeasible"})
	}
	// cross-check the number of feasible values with the mirrored back-ends
	for _, xs := range r.xs {
		n := 0
		xs.send("(push 1)")
		for xs.checkSat() == resSat {
			m, ok := xs.getValues([]string{tmp})
			if !ok {
				break
			}
			n++
			v, _ := parseBV(m[tmp])
			xs.send("(assert (not (= " + tmp + " " + bvconst(v, bits) + ")))")
			if n > len(vals)+1 {
				break
			}
		}
		xs.send("(pop 1)")
		if n != len(vals) {
			r.xdisagree++
			fmt.Fprintf(os.Stderr, "SOLVER DISAGREEMENT: %s enumerates %d values, %s %d for %s\n", r.sv.name, len(vals), xs.name, n, truncate(t, 100))
		}
	}
	sort.Slice(vals, func(a, b int) bool { return vals[a] < vals[b] })
	for _, v := range vals[1:] {
		r.pushAlt(Decision{Kind: "val", Val: v})
	}
	r.record(Decision{Kind: "val", Val: vals[0]})
	r.pos++
	r.prefix = r.trace
	r.assert("(= " + t + " " + bvconst(vals[0], bits) + ")")
	return concreteOfKind(x.kind, vals[0])
}

func (c *Config) maxFanout() int {
	if c.MaxFanout > 0 {
		return c.MaxFanout
	}
	return 1 << 16
}

func (r *runState) concrete(v value) value {
	switch x := v.(type) {
	case symInt:
		return r.concretize(x)
	case symBool:
		return r.decide(x, "concretise-bool")
	}
	return v
}

func (r *runState) concreteOrNil(v value) value {
	if v == nil {
		return nil
	}
	return r.concrete(v)
}

// concreteDeep concretises symbolic scalars inside aggregates (map keys).
func (r *runState) concreteDeep(v value) value {
	switch x := v.(type) {
	case symInt, symBool:
		return r.concrete(x)
	case structure:
		for i := range x {
			if containsSym(x[i]) {
				c := make(structure, len(x))
				for j := range x {
					c[j] = r.concreteDeep(x[j])
				}
				return c
			}
		}
	case array:
		for i := range x {
			if containsSym(x[i]) {
				c := make(array, len(x))
				for j := range x {
					c[j] = r.concreteDeep(x[j])
				}
				return c
			}
		}
	case iface:
		if containsSym(x.v) {
			return iface{x.t, r.concreteDeep(x.v)}
		}
	}
	return v
}

func containsSym(v value) bool {
	switch x := v.(type) {
	case symInt, symBool:
		return true
	case structure:
		for _, e := range x {
			if containsSym(e) {
				return true
			}
		}
	case array:
		for _, e := range x {
			if containsSym(e) {
				return true
			}
		}
	case iface:
		return containsSym(x.v)
	}
	return false
}

// choose makes an n-way decision that is not a program branch (scheduling,
// map order): a fresh symbolic input constrained to [0,n) is concretised, so
// that the solver enumerates the outcomes and replay files carry them.
func (r *runState) choose(n int, kind string) int {
	r.choiceCtr++
	name := fmt.Sprintf("%s!%d", kind, r.choiceCtr)
	v := r.newInput(name, 0, int64(n-1))
	return r.concretize(v.(symInt)).(int)
}

// newInput declares a symbolic int input in [lo,hi].
func (r *runState) newInput(name string, lo, hi int64) value {
	if c, ok := r.ex.cfg.Concrete[name]; ok {
		return int(int64(c))
	}
	if lo == hi {
		return int(lo)
	}
	qn := "|" + name + "|"
	r.declare(qn, "bv64")
	r.assert(fmt.Sprintf("(bvsle %s %s)", bvconst(uint64(lo), 64), qn))
	r.assert(fmt.Sprintf("(bvsle %s %s)", qn, bvconst(uint64(hi), 64)))
	return symInt{qn, types.Int}
}

// ---- obligations

func (r *runState) known(assertID string) string {
	if r.ex.cfg.AllFailuresKnown {
		return "xval"
	}
	if len(r.ex.cfg.OwnPrefixes) > 0 && !strings.HasPrefix(assertID, "ENGINE.") {
		own := false
		for _, p := range r.ex.cfg.OwnPrefixes {
			if strings.HasPrefix(assertID, p) {
				own = true
			}
		}
		if !own {
			return "foreign"
		}
	}
	// a failure is excused iff a carve-out active on this path belongs to an
	// open known finding for exactly this assertion id
	var ids []string
	for f := range r.findings {
		ids = append(ids, f)
	}
	sort.Strings(ids)
	for _, f := range ids {
		for _, a := range r.ex.cfg.KnownOpen[f] {
			if a == assertID {
				return f
			}
		}
	}
	return ""
}

func (r *runState) fail(assertID, msg string) {
	env, _ := r.model()
	f := Failure{AssertID: assertID, Msg: msg, Env: env, Harness: r.ex.cfg.Harness,
		EnvOrder: append([]string(nil), r.declOrder...), Trace: append([]Decision(nil), r.trace...)}
	for k := range r.findings {
		f.Findings = append(f.Findings, k)
	}
	sort.Strings(f.Findings)
	f.Known = r.known(assertID)
	r.failures = append(r.failures, f)
	if f.Known == "" {
		r.end = "failed"
	}
}

func (r *runState) deadlock(desc string) {
	r.fail("ENGINE.deadlock", "all goroutines blocked: "+desc)
}

// assertCond implements vrt.Assert.
func (r *runState) assertCond(c value, id, msg string) {
	switch c := c.(type) {
	case bool:
		if !c {
			r.fail(id, msg)
			if r.known(id) == "" {
				panic(vmPathEnd{"violation"})
			}
		}
	case symBool:
		if r.check("(not "+c.term+")") == resSat {
			// counterexample under pc ∧ ¬c
			r.sendAll("(push 1)")
			r.assert("(not " + c.term + ")")
			r.fail(id, msg)
			r.sendAll("(pop 1)")
			if r.known(id) == "" {
				panic(vmPathEnd{"violation"})
			}
		}
		if r.check(c.term) != resSat {
			panic(vmPathEnd{"assert exhausted"})
		}
		r.assert(c.term)
	default:
		panic(vmUnsupported(fmt.Sprintf("Assert on %T", c)))
	}
}

func (r *runState) assume(c value) {
	switch c := c.(type) {
	case bool:
		if !c {
			panic(vmPathEnd{"assume"})
		}
	case symBool:
		if r.check(c.term) != resSat {
			panic(vmPathEnd{"assume"})
		}
		r.assert(c.term)
	}
}
