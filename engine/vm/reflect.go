// Copyright 2013 The Go Authors. All rights reserved.
// Use of this source code is governed by a BSD-style
// license that can be found in the LICENSE file.
//
// Rewritten for gosym: a concrete model of the part of package reflect that
// godi (and the verification harnesses) use, built on go/types.
//
//	reflect.Type  = iface{rtypeType, rtype{T}}       (T a go/types type)
//	reflect.Value = structure{rtype{T}|iface{}, v, addr|iface{}, flags}
//
// A Value is valid iff slot 0 is an rtype. It is addressable iff slot 2 is a
// *value (the address of the variable holding v). Slot 3 is an int of rv*
// flags. Nothing in this file is symbolic.

package vm

import (
	"fmt"
	"go/token"
	"go/types"
	"os"
	"reflect"
	"strings"
	"sync"
	"unsafe"

	"golang.org/x/tools/go/ssa"
)

type opaqueType struct {
	types.Type
	name string
}

func (t *opaqueType) String() string { return t.name }

// A bogus "reflect" type-checker package.  Shared across interpreters.
var reflectTypesPackage = types.NewPackage("reflect", "reflect")

var rtypeType = makeNamedType("rtype", &opaqueType{nil, "rtype"})

// error is an (interpreted) named type whose underlying type is string.
var errorType = makeNamedType("error", &opaqueType{nil, "error"})

func makeNamedType(name string, underlying types.Type) *types.Named {
	obj := types.NewTypeName(token.NoPos, reflectTypesPackage, name, nil)
	return types.NewNamed(obj, underlying, nil)
}

const (
	rvRO = 1 << iota // obtained through an unexported field
)

func mkRV(t types.Type, v value, addr *value, flags int) value {
	var a value = iface{}
	if addr != nil {
		a = addr
	}
	return structure{rtype{t}, v, a, flags}
}

func makeReflectValue(t types.Type, v value) value { return mkRV(t, v, nil, 0) }

func invalidRV() value { return structure{iface{}, iface{}, iface{}, 0} }

func rvValid(v value) bool {
	s, ok := v.(structure)
	if !ok || len(s) < 1 {
		return false
	}
	_, ok = s[0].(rtype)
	return ok
}

func rvAddr(v value) *value {
	s := v.(structure)
	if len(s) > 2 {
		if p, ok := s[2].(*value); ok {
			return p
		}
	}
	return nil
}

func rvFlags(v value) int {
	s := v.(structure)
	if len(s) > 3 {
		if f, ok := s[3].(int); ok {
			return f
		}
	}
	return 0
}

// Given a reflect.Value, returns its rtype.
func rV2T(v value) rtype {
	if !rvValid(v) {
		panic(targetPanic{iface{types.Typ[types.String], "reflect: call of method on zero Value"}})
	}
	return v.(structure)[0].(rtype)
}

// Given a reflect.Value, returns the underlying interpreter value.
func rV2V(v value) value {
	return v.(structure)[1]
}

// makeReflectType boxes up an rtype in a reflect.Type interface.
func makeReflectType(rt rtype) value {
	if rt.t == nil {
		return iface{}
	}
	return iface{rtypeType, rt}
}

func argType(v value) types.Type {
	it := v.(iface)
	if it.t == nil {
		panic(targetRuntimeError("invalid memory address or nil pointer dereference (nil reflect.Type)"))
	}
	return it.v.(rtype).t
}

func isIfaceType(t types.Type) bool { _, ok := t.Underlying().(*types.Interface); return ok }

// box converts a value of static type t to an `any`.
func box(t types.Type, v value) iface {
	if isIfaceType(t) {
		if v == nil {
			return iface{}
		}
		return v.(iface)
	}
	return iface{t, v}
}

// assignTo converts (srcT, v) for storing into a location of type dstT.
func assignTo(dstT, srcT types.Type, v value) value {
	if isIfaceType(dstT) && !isIfaceType(srcT) {
		return iface{srcT, v}
	}
	return v
}

var hashMu sync.Mutex

func lockedHashType(t types.Type) int {
	hashMu.Lock()
	defer hashMu.Unlock()
	return int(hasher.Hash(t))
}

func reflectKind(t types.Type) reflect.Kind {
	switch t := t.(type) {
	case *types.Named, *types.Alias:
		return reflectKind(t.Underlying())
	case *types.Basic:
		switch t.Kind() {
		case types.Bool:
			return reflect.Bool
		case types.Int:
			return reflect.Int
		case types.Int8:
			return reflect.Int8
		case types.Int16:
			return reflect.Int16
		case types.Int32:
			return reflect.Int32
		case types.Int64:
			return reflect.Int64
		case types.Uint:
			return reflect.Uint
		case types.Uint8:
			return reflect.Uint8
		case types.Uint16:
			return reflect.Uint16
		case types.Uint32:
			return reflect.Uint32
		case types.Uint64:
			return reflect.Uint64
		case types.Uintptr:
			return reflect.Uintptr
		case types.Float32:
			return reflect.Float32
		case types.Float64:
			return reflect.Float64
		case types.Complex64:
			return reflect.Complex64
		case types.Complex128:
			return reflect.Complex128
		case types.String:
			return reflect.String
		case types.UnsafePointer:
			return reflect.UnsafePointer
		}
	case *types.Array:
		return reflect.Array
	case *types.Chan:
		return reflect.Chan
	case *types.Signature:
		return reflect.Func
	case *types.Interface:
		return reflect.Interface
	case *types.Map:
		return reflect.Map
	case *types.Pointer:
		return reflect.Ptr
	case *types.Slice:
		return reflect.Slice
	case *types.Struct:
		return reflect.Struct
	case *opaqueType:
		return reflect.Struct
	}
	panic(fmt.Sprint("unexpected type: ", t))
}

func typeString(t types.Type) string {
	return types.TypeString(t, func(p *types.Package) string { return p.Name() })
}

func rtypeOf(a value) types.Type { return a.(rtype).t }

func targetStringPanic(s string) targetPanic {
	return targetPanic{iface{types.Typ[types.String], s}}
}

func init() {
	ext := map[string]externalFn{
		// ---- package-level functions
		"reflect.TypeOf": func(fr *frame, a []value) value {
			it := a[0].(iface)
			if it.t == nil {
				return iface{}
			}
			return makeReflectType(rtype{it.t})
		},
		"reflect.ValueOf": func(fr *frame, a []value) value {
			it := a[0].(iface)
			if it.t == nil {
				return invalidRV()
			}
			return mkRV(it.t, it.v, nil, 0)
		},
		"reflect.New": func(fr *frame, a []value) value {
			t := argType(a[0])
			alloc := zero(t)
			return mkRV(types.NewPointer(t), &alloc, nil, 0)
		},
		"reflect.Zero": func(fr *frame, a []value) value {
			t := argType(a[0])
			return mkRV(t, zero(t), nil, 0)
		},
		"reflect.MakeSlice": func(fr *frame, a []value) value {
			t := argType(a[0])
			n := a[1].(int)
			c := a[2].(int)
			s := make([]value, n, c)
			et := t.Underlying().(*types.Slice).Elem()
			for i := range s {
				s[i] = zero(et)
			}
			return mkRV(t, s, nil, 0)
		},
		"reflect.PointerTo": func(fr *frame, a []value) value {
			return makeReflectType(rtype{types.NewPointer(argType(a[0]))})
		},
		"reflect.PtrTo": func(fr *frame, a []value) value {
			return makeReflectType(rtype{types.NewPointer(argType(a[0]))})
		},
		"reflect.SliceOf": func(fr *frame, a []value) value {
			return makeReflectType(rtype{types.NewSlice(argType(a[0]))})
		},
		"reflect.FuncOf": func(fr *frame, a []value) value {
			var in, out []*types.Var
			for _, x := range a[0].([]value) {
				in = append(in, types.NewVar(token.NoPos, nil, "", argType(x)))
			}
			for _, x := range a[1].([]value) {
				out = append(out, types.NewVar(token.NoPos, nil, "", argType(x)))
			}
			return makeReflectType(rtype{types.NewSignatureType(nil, nil, nil, types.NewTuple(in...), types.NewTuple(out...), a[2].(bool))})
		},
		"reflect.MakeFunc": func(fr *frame, a []value) value {
			// MakeFunc(typ, fn func([]Value) []Value) Value: the result is a
			// function value whose code pointer is shared by every MakeFunc
			// result (as natively: all use reflect.makeFuncStub).
			t := argType(a[0])
			sig := t.Underlying().(*types.Signature)
			impl := a[1]
			nf := &nativeFn{name: "reflect.makeFuncStub", code: 0x4d414b45, f: func(fr2 *frame, args []value) value {
				in := make([]value, len(args))
				for i := range args {
					in[i] = mkRV(sig.Params().At(i).Type(), args[i], nil, 0)
				}
				res := call(fr2.i, fr2, token.NoPos, impl, []value{in})
				outs := res.([]value)
				switch sig.Results().Len() {
				case 0:
					return nil
				case 1:
					return assignTo(sig.Results().At(0).Type(), rV2T(outs[0]).t, rV2V(outs[0]))
				}
				tup := make(tuple, len(outs))
				for i := range outs {
					tup[i] = assignTo(sig.Results().At(i).Type(), rV2T(outs[i]).t, rV2V(outs[i]))
				}
				return tup
			}}
			return mkRV(t, nf, nil, 0)
		},

		// ---- reflect.Type methods
		"(reflect.rtype).Kind":   func(fr *frame, a []value) value { return uint(reflectKind(rtypeOf(a[0]))) },
		"(reflect.rtype).String": func(fr *frame, a []value) value { return typeString(rtypeOf(a[0])) },
		"(reflect.rtype).Name": func(fr *frame, a []value) value {
			switch t := types.Unalias(rtypeOf(a[0])).(type) {
			case *types.Named:
				n := t.Obj().Name()
				if ta := t.TypeArgs(); ta != nil && ta.Len() > 0 {
					var parts []string
					for i := 0; i < ta.Len(); i++ {
						parts = append(parts, types.TypeString(ta.At(i), nil))
					}
					n += "[" + strings.Join(parts, ",") + "]"
				}
				return n
			case *types.Basic:
				return t.Name()
			}
			return ""
		},
		"(reflect.rtype).PkgPath": func(fr *frame, a []value) value {
			if n, ok := types.Unalias(rtypeOf(a[0])).(*types.Named); ok && n.Obj().Pkg() != nil {
				return n.Obj().Pkg().Path()
			}
			return ""
		},
		"(reflect.rtype).Elem": func(fr *frame, a []value) value {
			switch t := rtypeOf(a[0]).Underlying().(type) {
			case *types.Pointer:
				return makeReflectType(rtype{t.Elem()})
			case *types.Slice:
				return makeReflectType(rtype{t.Elem()})
			case *types.Array:
				return makeReflectType(rtype{t.Elem()})
			case *types.Map:
				return makeReflectType(rtype{t.Elem()})
			case *types.Chan:
				return makeReflectType(rtype{t.Elem()})
			}
			panic(targetStringPanic("reflect: Elem of invalid type " + typeString(rtypeOf(a[0]))))
		},
		"(reflect.rtype).Key": func(fr *frame, a []value) value {
			if t, ok := rtypeOf(a[0]).Underlying().(*types.Map); ok {
				return makeReflectType(rtype{t.Key()})
			}
			panic(targetStringPanic("reflect: Key of non-map type " + typeString(rtypeOf(a[0]))))
		},
		"(reflect.rtype).ChanDir": func(fr *frame, a []value) value {
			t := rtypeOf(a[0]).Underlying().(*types.Chan)
			switch t.Dir() {
			case types.SendOnly:
				return int(reflect.SendDir)
			case types.RecvOnly:
				return int(reflect.RecvDir)
			}
			return int(reflect.BothDir)
		},
		"(reflect.rtype).NumIn": func(fr *frame, a []value) value {
			return sigOf(a[0]).Params().Len()
		},
		"(reflect.rtype).In": func(fr *frame, a []value) value {
			return makeReflectType(rtype{sigOf(a[0]).Params().At(a[1].(int)).Type()})
		},
		"(reflect.rtype).NumOut": func(fr *frame, a []value) value {
			return sigOf(a[0]).Results().Len()
		},
		"(reflect.rtype).Out": func(fr *frame, a []value) value {
			return makeReflectType(rtype{sigOf(a[0]).Results().At(a[1].(int)).Type()})
		},
		"(reflect.rtype).IsVariadic": func(fr *frame, a []value) value { return sigOf(a[0]).Variadic() },
		"(reflect.rtype).NumField": func(fr *frame, a []value) value {
			st, ok := rtypeOf(a[0]).Underlying().(*types.Struct)
			if !ok {
				panic(targetStringPanic("reflect: NumField of non-struct type " + typeString(rtypeOf(a[0]))))
			}
			return st.NumFields()
		},
		"(reflect.rtype).Field": func(fr *frame, a []value) value {
			st, ok := rtypeOf(a[0]).Underlying().(*types.Struct)
			if !ok {
				panic(targetStringPanic("reflect: Field of non-struct type " + typeString(rtypeOf(a[0]))))
			}
			i := a[1].(int)
			if i < 0 || i >= st.NumFields() {
				panic(targetStringPanic("reflect: Field index out of bounds"))
			}
			f := st.Field(i)
			pp := ""
			if !f.Exported() && f.Pkg() != nil {
				pp = f.Pkg().Path()
			}
			return structure{f.Name(), pp, makeReflectType(rtype{f.Type()}), st.Tag(i), uintptr(0), []value{i}, f.Anonymous()}
		},
		"(reflect.rtype).NumMethod": func(fr *frame, a []value) value {
			return fr.i.prog.MethodSets.MethodSet(rtypeOf(a[0])).Len()
		},
		"(reflect.rtype).Implements": func(fr *frame, a []value) value {
			u := argType(a[1])
			it, ok := u.Underlying().(*types.Interface)
			if !ok {
				panic(targetStringPanic("reflect: non-interface type passed to Type.Implements"))
			}
			return types.Implements(rtypeOf(a[0]), it)
		},
		"(reflect.rtype).AssignableTo": func(fr *frame, a []value) value {
			return assignable(fr.i, rtypeOf(a[0]), argType(a[1]))
		},
		"(reflect.rtype).ConvertibleTo": func(fr *frame, a []value) value {
			return types.ConvertibleTo(rtypeOf(a[0]), argType(a[1]))
		},
		"(reflect.rtype).Comparable": func(fr *frame, a []value) value {
			return types.Comparable(rtypeOf(a[0]))
		},
		"(reflect.rtype).Size": func(fr *frame, a []value) value {
			return uintptr(fr.i.sizes.Sizeof(rtypeOf(a[0])))
		},
		"(reflect.rtype).Bits": func(fr *frame, a []value) value {
			return int(fr.i.sizes.Sizeof(rtypeOf(a[0]))) * 8
		},

		// ---- reflect.Value methods
		"(reflect.Value).IsValid": func(fr *frame, a []value) value { return rvValid(a[0]) },
		"(reflect.Value).Kind": func(fr *frame, a []value) value {
			if !rvValid(a[0]) {
				return uint(reflect.Invalid)
			}
			return uint(reflectKind(rV2T(a[0]).t))
		},
		"(reflect.Value).Type":    func(fr *frame, a []value) value { return makeReflectType(rV2T(a[0])) },
		"(reflect.Value).CanAddr": func(fr *frame, a []value) value { return rvValid(a[0]) && rvAddr(a[0]) != nil },
		"(reflect.Value).Addr": func(fr *frame, a []value) value {
			p := rvAddr(a[0])
			if !rvValid(a[0]) || p == nil {
				panic(targetStringPanic("reflect.Value.Addr of unaddressable value"))
			}
			return mkRV(types.NewPointer(rV2T(a[0]).t), p, nil, rvFlags(a[0]))
		},
		"(reflect.Value).CanSet": func(fr *frame, a []value) value {
			return rvValid(a[0]) && rvAddr(a[0]) != nil && rvFlags(a[0])&rvRO == 0
		},
		"(reflect.Value).CanInterface": func(fr *frame, a []value) value {
			return rvFlags(a[0])&rvRO == 0
		},
		"(reflect.Value).Elem": func(fr *frame, a []value) value {
			t := rV2T(a[0]).t
			switch x := rV2V(a[0]).(type) {
			case iface:
				if isIfaceType(t) {
					if x.t == nil {
						return invalidRV()
					}
					return mkRV(x.t, x.v, nil, rvFlags(a[0]))
				}
			case *value:
				if pt, ok := t.Underlying().(*types.Pointer); ok {
					if x == nil {
						return invalidRV()
					}
					return mkRV(pt.Elem(), *x, x, rvFlags(a[0]))
				}
			}
			panic(targetStringPanic("reflect: call of reflect.Value.Elem on " + typeString(t) + " Value"))
		},
		"(reflect.Value).NumField": func(fr *frame, a []value) value {
			return rV2T(a[0]).t.Underlying().(*types.Struct).NumFields()
		},
		"(reflect.Value).Field": func(fr *frame, a []value) value {
			i := a[1].(int)
			st, ok := rV2T(a[0]).t.Underlying().(*types.Struct)
			if !ok {
				panic(targetStringPanic("reflect: call of reflect.Value.Field on non-struct Value"))
			}
			f := st.Field(i)
			fl := rvFlags(a[0])
			if !f.Exported() {
				fl |= rvRO
			}
			if p := rvAddr(a[0]); p != nil {
				fp := &(*p).(structure)[i]
				return mkRV(f.Type(), *fp, fp, fl)
			}
			return mkRV(f.Type(), rV2V(a[0]).(structure)[i], nil, fl)
		},
		"(reflect.Value).Index": func(fr *frame, a []value) value {
			i := a[1].(int)
			t := rV2T(a[0]).t
			switch v := rV2V(a[0]).(type) {
			case []value:
				if i < 0 || i >= len(v) {
					panic(targetStringPanic("reflect: slice index out of range"))
				}
				return mkRV(t.Underlying().(*types.Slice).Elem(), v[i], &v[i], rvFlags(a[0]))
			case array:
				et := t.Underlying().(*types.Array).Elem()
				if p := rvAddr(a[0]); p != nil {
					ep := &(*p).(array)[i]
					return mkRV(et, *ep, ep, rvFlags(a[0]))
				}
				return mkRV(et, v[i], nil, rvFlags(a[0]))
			case string:
				return mkRV(types.Typ[types.Uint8], v[i], nil, 0)
			}
			panic(fmt.Sprintf("reflect.Value.Index of %T", rV2V(a[0])))
		},
		"(reflect.Value).Len": func(fr *frame, a []value) value {
			switch v := rV2V(a[0]).(type) {
			case string:
				return len(v)
			case array:
				return len(v)
			case []value:
				return len(v)
			case *hashmap:
				return v.len()
			case *vmchan:
				return v.length()
			}
			panic(fmt.Sprintf("reflect.Value.Len of %T", rV2V(a[0])))
		},
		"(reflect.Value).Set": func(fr *frame, a []value) value {
			p := rvAddr(a[0])
			if p == nil || rvFlags(a[0])&rvRO != 0 {
				panic(targetStringPanic("reflect: reflect.Value.Set using unaddressable or unexported value"))
			}
			dt, st := rV2T(a[0]).t, rV2T(a[1]).t
			if !assignable(fr.i, st, dt) {
				panic(targetStringPanic("reflect.Set: value of type " + typeString(st) + " is not assignable to type " + typeString(dt)))
			}
			store(dt, p, copyVal(assignTo(dt, st, rV2V(a[1]))))
			return nil
		},
		"(reflect.Value).Interface": func(fr *frame, a []value) value {
			if rvFlags(a[0])&rvRO != 0 {
				panic(targetStringPanic("reflect.Value.Interface: cannot return value obtained from unexported field or method"))
			}
			return box(rV2T(a[0]).t, rV2V(a[0]))
		},
		"(reflect.Value).IsNil": func(fr *frame, a []value) value {
			switch x := rV2V(a[0]).(type) {
			case *value:
				return x == nil
			case *vmchan:
				return x == nil
			case *hashmap:
				return x == nil
			case []value:
				return x == nil
			case *ssa.Function:
				return x == nil
			case *closure:
				return false
			case *nativeFn:
				return false
			case iface:
				return x.t == nil
			case unsafe.Pointer:
				return x == nil
			}
			panic(targetStringPanic("reflect: call of reflect.Value.IsNil on " + typeString(rV2T(a[0]).t) + " Value"))
		},
		"(reflect.Value).IsZero": func(fr *frame, a []value) value {
			t := rV2T(a[0]).t
			return equalsOrNil(t, rV2V(a[0]), zero(t))
		},
		"(reflect.Value).Pointer": func(fr *frame, a []value) value {
			switch v := rV2V(a[0]).(type) {
			case *value:
				return uintptr(unsafe.Pointer(v))
			case *ssa.Function:
				return uintptr(unsafe.Pointer(v))
			case *closure:
				return uintptr(unsafe.Pointer(v.Fn)) // code pointer: bindings ignored
			case *nativeFn:
				return uintptr(v.code)
			case *hashmap:
				return uintptr(unsafe.Pointer(v))
			case *vmchan:
				return uintptr(unsafe.Pointer(v))
			case []value:
				if len(v) == 0 {
					return uintptr(0)
				}
				return uintptr(unsafe.Pointer(&v[0]))
			case rtype:
				return uintptr(lockedHashType(v.t))
			case iface:
				if rt, ok := v.v.(rtype); ok {
					return uintptr(lockedHashType(rt.t))
				}
			}
			panic(fmt.Sprintf("reflect.Value.Pointer(%T)", rV2V(a[0])))
		},
		"(reflect.Value).Call": func(fr *frame, a []value) value {
			fn := rV2V(a[0])
			sig, ok := rV2T(a[0]).t.Underlying().(*types.Signature)
			if !ok {
				panic(targetStringPanic("reflect: call of reflect.Value.Call on non-func Value"))
			}
			in := a[1].([]value)
			if !sig.Variadic() && len(in) != sig.Params().Len() {
				if len(in) < sig.Params().Len() {
					panic(targetStringPanic("reflect: Call with too few input arguments"))
				}
				panic(targetStringPanic("reflect: Call with too many input arguments"))
			}
			if sig.Variadic() {
				panic("reflect.Value.Call: variadic functions are not modelled")
			}
			args := make([]value, len(in))
			for i, x := range in {
				if !rvValid(x) {
					panic(targetStringPanic("reflect: Call using zero Value argument"))
				}
				pt := sig.Params().At(i).Type()
				if !assignable(fr.i, rV2T(x).t, pt) {
					if debugStacks { fmt.Fprintf(os.Stderr, "CALL MISMATCH arg %d: %v (%T) as %v\n", i, rV2T(x).t, rV2V(x), pt) }; panic(targetStringPanic("reflect: Call using " + typeString(rV2T(x).t) + " as type " + typeString(pt)))
				}
				args[i] = copyVal(assignTo(pt, rV2T(x).t, rV2V(x)))
			}
			if f, ok := fn.(*ssa.Function); ok && f == nil {
				panic(targetStringPanic("reflect: call of nil function"))
			}
			res := call(fr.i, fr, token.NoPos, fn, args)
			n := sig.Results().Len()
			out := make([]value, n)
			switch n {
			case 0:
			case 1:
				out[0] = mkRV(sig.Results().At(0).Type(), res, nil, 0)
			default:
				for i, r := range res.(tuple) {
					out[i] = mkRV(sig.Results().At(i).Type(), r, nil, 0)
				}
			}
			return out
		},
		"(reflect.Value).Bool":   func(fr *frame, a []value) value { return rV2V(a[0]).(bool) },
		"(reflect.Value).String": func(fr *frame, a []value) value {
			if s, ok := rV2V(a[0]).(string); ok {
				return s
			}
			return "<" + typeString(rV2T(a[0]).t) + " Value>"
		},
		"(reflect.Value).Int":  func(fr *frame, a []value) value { return asInt64(rV2V(a[0])) },
		"(reflect.Value).Uint": func(fr *frame, a []value) value { return uint64(asInt64(rV2V(a[0]))) },
		"(reflect.Value).MapKeys": func(fr *frame, a []value) value {
			tk := rV2T(a[0]).t.Underlying().(*types.Map).Key()
			var keys []value
			if m, ok := rV2V(a[0]).(*hashmap); ok {
				for _, e := range fr.i.permute(m.live()) {
					keys = append(keys, mkRV(tk, e.key, nil, 0))
				}
			}
			return keys
		},
		"(reflect.Value).MapIndex": func(fr *frame, a []value) value {
			te := rV2T(a[0]).t.Underlying().(*types.Map).Elem()
			if m, ok := rV2V(a[0]).(*hashmap); ok {
				if v := m.lookup(rV2V(a[1])); v != nil {
					return mkRV(te, v, nil, 0)
				}
			}
			return invalidRV()
		},
		"reflect.valueInterface": func(fr *frame, a []value) value {
			return box(rV2T(a[0]).t, rV2V(a[0]))
		},
		"(reflect.error).Error": func(fr *frame, a []value) value { return a[0] },
	}
	for k, v := range ext {
		externals[k] = v
	}
}

// assignable is types.AssignableTo extended to the VM's own opaque types
// (vmctx, wraperr, rtype), which go/types cannot look into.
func assignable(i *interpreter, src, dst types.Type) bool {
	if n, ok := src.(*types.Named); ok && n.Obj().Pkg() == reflectTypesPackage {
		if src == dst {
			return true
		}
		it, ok := dst.Underlying().(*types.Interface)
		if !ok {
			return false
		}
		for k := 0; k < it.NumMethods(); k++ {
			if i.fakeMethod(n, it.Method(k).Name()) == nil {
				return false
			}
		}
		return true
	}
	if n, ok := dst.(*types.Named); ok && n.Obj().Pkg() == reflectTypesPackage {
		return src == dst
	}
	return types.AssignableTo(src, dst)
}

func sigOf(a value) *types.Signature {
	s, ok := rtypeOf(a).Underlying().(*types.Signature)
	if !ok {
		panic(targetStringPanic("reflect: function-type method called on non-func type " + typeString(rtypeOf(a))))
	}
	return s
}

// copyVal makes an unaliased copy of aggregates (structs, arrays); everything
// else has reference or value semantics already.
func copyVal(v value) value {
	switch v := v.(type) {
	case structure:
		c := make(structure, len(v))
		for i := range v {
			c[i] = copyVal(v[i])
		}
		return c
	case array:
		c := make(array, len(v))
		for i := range v {
			c[i] = copyVal(v[i])
		}
		return c
	}
	return v
}

func equalsOrNil(t types.Type, x, y value) (r bool) {
	defer func() {
		if recover() != nil {
			r = false
		}
	}()
	return eqnil(t, x, y)
}

// newMethod creates a new method of the specified name, package and receiver type.
func newMethod(pkg *ssa.Package, recvType types.Type, name string) *ssa.Function {
	sig := types.NewSignature(types.NewVar(token.NoPos, nil, "recv", recvType), nil, nil, false)
	fn := pkg.Prog.NewFunction(name, sig, "fake reflect method")
	fn.Pkg = pkg
	return fn
}

// initReflect prepares the shared Machine: fake reflect package, clobbered
// reflect.Value layout, method tables for the VM's own types.
func (m *Machine) initReflect() {
	m.reflectPackage = &ssa.Package{
		Prog:    m.prog,
		Pkg:     reflectTypesPackage,
		Members: make(map[string]ssa.Member),
	}
	if r := m.prog.ImportedPackage("reflect"); r != nil {
		rV := r.Pkg.Scope().Lookup("Value").Type().(*types.Named)
		mset := m.prog.MethodSets.MethodSet(rV)
		for j := 0; j < mset.Len(); j++ {
			m.prog.MethodValue(mset.At(j)).Blocks = nil
		}
		pset := m.prog.MethodSets.MethodSet(types.NewPointer(rV))
		for j := 0; j < pset.Len(); j++ {
			if f := m.prog.MethodValue(pset.At(j)); f != nil && f.Synthetic == "" {
				f.Blocks = nil
			}
		}
		tEface := types.NewInterface(nil, nil).Complete()
		rV.SetUnderlying(types.NewStruct([]*types.Var{
			types.NewField(token.NoPos, r.Pkg, "t", tEface, false), // a lie
			types.NewField(token.NoPos, r.Pkg, "v", tEface, false),
			types.NewField(token.NoPos, r.Pkg, "a", tEface, false),
			types.NewField(token.NoPos, r.Pkg, "f", types.Typ[types.Int], false),
		}, nil))
	}
	m.fakeMethods = map[string]*ssa.Function{}
	m.fakeNames = map[*ssa.Function]string{}
}

// fakeMethod returns (creating on first use) the stub *ssa.Function standing
// for method `name` of one of the VM's own opaque types; calls to it are
// routed to externals["(pkg.type).name"].
func (m *Machine) fakeMethod(typ *types.Named, name string) *ssa.Function {
	key := "(" + typ.Obj().Pkg().Name() + "." + typ.Obj().Name() + ")." + name
	m.mu.Lock()
	defer m.mu.Unlock()
	if f := m.fakeMethods[key]; f != nil {
		return f
	}
	if externals[key] == nil {
		return nil
	}
	f := newMethod(m.reflectPackage, typ, name)
	m.fakeMethods[key] = f
	m.fakeNames[f] = key
	return f
}
