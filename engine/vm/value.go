// Copyright 2013 The Go Authors. All rights reserved.
// Use of this source code is governed by a BSD-style
// license that can be found in the LICENSE file.

package vm

// Values
//
// All interpreter values are "boxed" in the empty interface, value.
// The range of possible dynamic types within value are:
//
// - bool
// - numbers (all built-in int/float/complex types are distinguished)
// - string
// - *hashmap --- maps (insertion ordered)
// - *vmchan --- channels (VM scheduler)
// - []value --- slices
// - iface --- interfaces.
// - structure --- structs.  Fields are ordered and accessed by numeric indices.
// - array --- arrays.
// - *value --- pointers.  Careful: *value is a distinct type from *array etc.
// - *ssa.Function \
//   *ssa.Builtin   } --- functions.  A nil 'func' is always of type *ssa.Function.
//   *closure      /
// - tuple --- as returned by Return, Next, "value,ok" modes, etc.
// - iter --- iterators from 'range' over map or string.
// - bad --- a poison pill for locals that have gone out of scope.
// - rtype -- the interpreter's concrete implementation of reflect.Type
// - **deferred -- the address of a frame's defer stack for a Defer._Stack.
//
// Note that nil is not on this list.
//
// Pay close attention to whether or not the dynamic type is a pointer.
// The compiler cannot help you since value is an empty interface.

import (
	"bytes"
	"fmt"
	"go/types"
	"io"
	"strings"
	"sync"
	"unsafe"

	"golang.org/x/tools/go/ssa"
	"golang.org/x/tools/go/types/typeutil"
)

type value interface{}

type tuple []value

type array []value

type iface struct {
	t types.Type // never an "untyped" type
	v value
}

type structure []value

// For map, array, *array, slice, string or channel.
type iter interface {
	// next returns a Tuple (key, value, ok).
	// key and value are unaliased, e.g. copies of the sequence element.
	next() tuple
}

type closure struct {
	Fn  *ssa.Function
	Env []value
}

type bad struct{}

type rtype struct {
	t types.Type
}

// Hash functions and equivalence relation:

// hashString computes the FNV hash of s.
func hashString(s string) int {
	var h uint32
	for i := 0; i < len(s); i++ {
		h ^= uint32(s[i])
		h *= 16777619
	}
	return int(h)
}

var (
	mu     sync.Mutex
	hasher = typeutil.MakeHasher()
)

// hashType returns a hash for t such that
// types.Identical(x, y) => hashType(x) == hashType(y).
func hashType(t types.Type) int {
	return lockedHashType(t)
}

func (x array) eq(t types.Type, _y interface{}) bool {
	y := _y.(array)
	tElt := t.Underlying().(*types.Array).Elem()
	for i, xi := range x {
		if !equals(tElt, xi, y[i]) {
			return false
		}
	}
	return true
}

func (x array) hash(t types.Type) int {
	h := 0
	tElt := t.Underlying().(*types.Array).Elem()
	for _, xi := range x {
		h += hash(t, tElt, xi)
	}
	return h
}

func (x structure) eq(t types.Type, _y interface{}) bool {
	y := _y.(structure)
	tStruct := t.Underlying().(*types.Struct)
	for i, n := 0, tStruct.NumFields(); i < n; i++ {
		if f := tStruct.Field(i); !f.Anonymous() {
			if !equals(f.Type(), x[i], y[i]) {
				return false
			}
		}
	}
	return true
}

func (x structure) hash(t types.Type) int {
	tStruct := t.Underlying().(*types.Struct)
	h := 0
	for i, n := 0, tStruct.NumFields(); i < n; i++ {
		if f := tStruct.Field(i); !f.Anonymous() {
			h += hash(t, f.Type(), x[i])
		}
	}
	return h
}

// nil-tolerant variant of types.Identical.
func sameType(x, y types.Type) bool {
	if x == nil {
		return y == nil
	}
	return y != nil && types.Identical(x, y)
}

func (x iface) eq(t types.Type, _y interface{}) bool {
	y := _y.(iface)
	return sameType(x.t, y.t) && (x.t == nil || equals(x.t, x.v, y.v))
}

func (x iface) hash(outer types.Type) int {
	if x.t == nil {
		return 0
	}
	return hashType(x.t)*8581 + hash(outer, x.t, x.v)
}

func (x rtype) hash(_ types.Type) int {
	return hashType(x.t)
}

func (x rtype) eq(_ types.Type, y interface{}) bool {
	return types.Identical(x.t, y.(rtype).t)
}

// equals returns true iff x and y are equal according to Go's
// linguistic equivalence relation for type t.
// In a well-typed program, the dynamic types of x and y are
// guaranteed equal.
func equals(t types.Type, x, y value) bool {
	switch x := x.(type) {
	case bool:
		return x == y.(bool)
	case int:
		return x == y.(int)
	case int8:
		return x == y.(int8)
	case int16:
		return x == y.(int16)
	case int32:
		return x == y.(int32)
	case int64:
		return x == y.(int64)
	case uint:
		return x == y.(uint)
	case uint8:
		return x == y.(uint8)
	case uint16:
		return x == y.(uint16)
	case uint32:
		return x == y.(uint32)
	case uint64:
		return x == y.(uint64)
	case uintptr:
		return x == y.(uintptr)
	case float32:
		return x == y.(float32)
	case float64:
		return x == y.(float64)
	case complex64:
		return x == y.(complex64)
	case complex128:
		return x == y.(complex128)
	case string:
		return x == y.(string)
	case *value:
		return x == y.(*value)
	case *vmchan:
		return x == y.(*vmchan)
	case *vmCtx:
		yy, ok := y.(*vmCtx)
		return ok && x == yy
	case *wrapErr:
		yy, ok := y.(*wrapErr)
		return ok && x == yy
	case unsafe.Pointer:
		return x == y.(unsafe.Pointer)
	case structure:
		return x.eq(t, y)
	case array:
		return x.eq(t, y)
	case iface:
		return x.eq(t, y)
	case rtype:
		return x.eq(t, y)
	}

	// Since map, func and slice don't support comparison, this
	// case is only reachable if one of x or y is literally nil
	// (handled in eqnil) or via interface{} values.
	panic(targetRuntimeError(fmt.Sprintf("comparing uncomparable type %s", t)))
}

// Returns an integer hash of x such that equals(x, y) => hash(x) == hash(y).
// The outer type is used only for the "unhashable" panic message.
func hash(outer, t types.Type, x value) int {
	switch x := x.(type) {
	case bool:
		if x {
			return 1
		}
		return 0
	case int:
		return x
	case int8:
		return int(x)
	case int16:
		return int(x)
	case int32:
		return int(x)
	case int64:
		return int(x)
	case uint:
		return int(x)
	case uint8:
		return int(x)
	case uint16:
		return int(x)
	case uint32:
		return int(x)
	case uint64:
		return int(x)
	case uintptr:
		return int(x)
	case float32:
		return int(x)
	case float64:
		return int(x)
	case complex64:
		return int(real(x))
	case complex128:
		return int(real(x))
	case string:
		return hashString(x)
	case *value:
		return int(uintptr(unsafe.Pointer(x)))
	case *vmchan:
		return int(uintptr(unsafe.Pointer(x)))
	case *vmCtx:
		return int(uintptr(unsafe.Pointer(x)))
	case *wrapErr:
		return int(uintptr(unsafe.Pointer(x)))
	case unsafe.Pointer:
		return int(uintptr(x))
	case structure:
		return x.hash(t)
	case array:
		return x.hash(t)
	case iface:
		return x.hash(t)
	case rtype:
		return x.hash(t)
	}
	panic(targetRuntimeError(fmt.Sprintf("hash of unhashable type %v", outer)))
}

// reflect.Value struct values don't have a fixed shape, since the
// payload can be a scalar or an aggregate depending on the instance.
// So store (and load) can't simply use recursion over the shape of the
// rhs value, or the lhs, to copy the value; we need the static type
// information.  (We can't make reflect.Value a new basic data type
// because its "structness" is exposed to Go programs.)

// load returns the value of type T in *addr.
func load(T types.Type, addr *value) value {
	switch T := T.Underlying().(type) {
	case *types.Struct:
		v := (*addr).(structure)
		a := make(structure, len(v))
		for i := range a {
			a[i] = load(T.Field(i).Type(), &v[i])
		}
		return a
	case *types.Array:
		v := (*addr).(array)
		a := make(array, len(v))
		for i := range a {
			a[i] = load(T.Elem(), &v[i])
		}
		return a
	default:
		return *addr
	}
}

// store stores value v of type T into *addr.
func store(T types.Type, addr *value, v value) {
	switch T := T.Underlying().(type) {
	case *types.Struct:
		lhs := (*addr).(structure)
		rhs := v.(structure)
		for i := range lhs {
			store(T.Field(i).Type(), &lhs[i], rhs[i])
		}
	case *types.Array:
		lhs := (*addr).(array)
		rhs := v.(array)
		for i := range lhs {
			store(T.Elem(), &lhs[i], rhs[i])
		}
	default:
		*addr = v
	}
}

// Prints in the style of built-in println.
// (More or less; in gc println is actually a compiler intrinsic and
// can distinguish println(1) from println(interface{}(1)).)
func writeValue(buf *bytes.Buffer, v value) {
	switch v := v.(type) {
	case nil, bool, int, int8, int16, int32, int64, uint, uint8, uint16, uint32, uint64, uintptr, float32, float64, complex64, complex128, string:
		fmt.Fprintf(buf, "%v", v)

	case *hashmap:
		buf.WriteString("map[")
		sep := ""
		for _, e := range v.live() {
			buf.WriteString(sep)
			sep = " "
			writeValue(buf, e.key)
			buf.WriteString(":")
			writeValue(buf, e.value)
		}
		buf.WriteString("]")

	case *vmchan:
		fmt.Fprintf(buf, "%v", v) // (an address)

	case *value:
		if v == nil {
			buf.WriteString("<nil>")
		} else {
			fmt.Fprintf(buf, "%p", v)
		}

	case iface:
		fmt.Fprintf(buf, "(%s, ", v.t)
		writeValue(buf, v.v)
		buf.WriteString(")")

	case structure:
		buf.WriteString("{")
		for i, e := range v {
			if i > 0 {
				buf.WriteString(" ")
			}
			writeValue(buf, e)
		}
		buf.WriteString("}")

	case array:
		buf.WriteString("[")
		for i, e := range v {
			if i > 0 {
				buf.WriteString(" ")
			}
			writeValue(buf, e)
		}
		buf.WriteString("]")

	case []value:
		buf.WriteString("[")
		for i, e := range v {
			if i > 0 {
				buf.WriteString(" ")
			}
			writeValue(buf, e)
		}
		buf.WriteString("]")

	case *ssa.Function, *ssa.Builtin, *closure:
		fmt.Fprintf(buf, "%p", v) // (an address)

	case rtype:
		buf.WriteString(v.t.String())

	case tuple:
		// Unreachable in well-formed Go programs
		buf.WriteString("(")
		for i, e := range v {
			if i > 0 {
				buf.WriteString(", ")
			}
			writeValue(buf, e)
		}
		buf.WriteString(")")

	default:
		fmt.Fprintf(buf, "<%T>", v)
	}
}

// Implements printing of Go values in the style of built-in println.
func toString(v value) string {
	var b bytes.Buffer
	writeValue(&b, v)
	return b.String()
}

// ------------------------------------------------------------------------
// Iterators

type stringIter struct {
	*strings.Reader
	i int
}

func (it *stringIter) next() tuple {
	okv := make(tuple, 3)
	ch, n, err := it.ReadRune()
	ok := err != io.EOF
	okv[0] = ok
	if ok {
		okv[1] = it.i
		okv[2] = ch
	}
	it.i += n
	return okv
}

