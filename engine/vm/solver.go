package vm

// SMT back-ends: one persistent process per worker, driven over stdin/stdout
// in SMT-LIB2. No set-logic (z3 4.8.12 silently drops what a restrictive logic
// cannot parse); any "(error" line makes the query inconclusive.

import (
	"bufio"
	"fmt"
	"io"
	"os/exec"
	"strings"
	"time"
)

type satResult int

const (
	resUnsat satResult = iota
	resSat
	resUnknown
)

func (r satResult) String() string { return [...]string{"unsat", "sat", "unknown"}[r] }

type solverProc struct {
	name    string
	cmd     *exec.Cmd
	in      io.WriteCloser
	out     *bufio.Reader
	Queries int
	Sat     int
	Unsat   int
	Unknown int
	Dur     time.Duration
	log     *strings.Builder // script of the current run (for cross-checking)
	started bool
}

func solverCommand(name string) []string {
	switch name {
	case "z3":
		return []string{"z3", "-in", "-t:20000"}
	case "z3-new":
		return []string{"z3-new", "-in", "-t:20000"}
	case "cvc5":
		return []string{"cvc5", "--incremental", "--produce-models", "--tlimit-per=20000", "--lang=smt2"}
	}
	return nil
}

func startSolver(name string) (*solverProc, error) {
	argv := solverCommand(name)
	if argv == nil {
		return nil, fmt.Errorf("unknown solver %q", name)
	}
	cmd := exec.Command(argv[0], argv[1:]...)
	in, err := cmd.StdinPipe()
	if err != nil {
		return nil, err
	}
	outp, err := cmd.StdoutPipe()
	if err != nil {
		return nil, err
	}
	cmd.Stderr = cmd.Stdout
	if err := cmd.Start(); err != nil {
		return nil, err
	}
	s := &solverProc{name: name, cmd: cmd, in: in, out: bufio.NewReader(outp)}
	return s, nil
}

func (s *solverProc) close() {
	s.in.Close()
	s.cmd.Process.Kill()
	s.cmd.Wait()
}

func (s *solverProc) send(x string) {
	io.WriteString(s.in, x)
	io.WriteString(s.in, "\n")
	if s.log != nil {
		s.log.WriteString(x)
		s.log.WriteByte('\n')
	}
}

// reset starts a fresh assertion context for a run. Declarations and
// assertions of a run live inside one push scope, which is cheaper than
// (reset) for thousands of short runs.
func (s *solverProc) reset() {
	if !s.started {
		s.started = true
		if s.name == "cvc5" {
			s.send("(set-logic ALL)")
		}
		s.send("(set-option :produce-models true)")
	} else {
		s.send("(pop 1)")
	}
	s.send("(push 1)")
}

func (s *solverProc) readLine() string {
	line, err := s.out.ReadString('\n')
	if err != nil {
		return "(error \"solver died: " + err.Error() + "\")"
	}
	return strings.TrimSpace(line)
}

// checkSat issues (check-sat) under the current assertion stack.
func (s *solverProc) checkSat() satResult {
	t0 := time.Now()
	s.Queries++
	s.send("(check-sat)")
	line := s.readLine()
	for line == "" {
		line = s.readLine()
	}
	s.Dur += time.Since(t0)
	switch line {
	case "sat":
		s.Sat++
		return resSat
	case "unsat":
		s.Unsat++
		return resUnsat
	}
	s.Unknown++
	return resUnknown
}

// check decides feasibility of cond on top of the current stack.
func (s *solverProc) check(cond string) satResult {
	s.send("(push 1)")
	s.send("(assert " + cond + ")")
	r := s.checkSat()
	s.send("(pop 1)")
	return r
}

// getValues returns the model values of names after a sat answer.
func (s *solverProc) getValues(names []string) (map[string]string, bool) {
	if len(names) == 0 {
		return map[string]string{}, true
	}
	s.send("(get-value (" + strings.Join(names, " ") + "))")
	// read a balanced s-expression
	var sb strings.Builder
	depth, started := 0, false
	for {
		line := s.readLine()
		if strings.HasPrefix(line, "(error") {
			return nil, false
		}
		sb.WriteString(line)
		sb.WriteByte(' ')
		for _, ch := range line {
			if ch == '(' {
				depth++
				started = true
			} else if ch == ')' {
				depth--
			}
		}
		if started && depth <= 0 {
			break
		}
	}
	txt := sb.String()
	out := map[string]string{}
	for _, n := range names {
		k := strings.Index(txt, "("+n+" ")
		if k < 0 {
			return nil, false
		}
		rest := txt[k+len(n)+2:]
		end := strings.IndexAny(rest, ")")
		if strings.HasPrefix(rest, "(") { // e.g. (_ bv5 64) or (- 1)
			end = strings.Index(rest, ")") + 1
		}
		out[n] = strings.TrimSpace(rest[:end])
	}
	return out, true
}

func parseBV(s string) (uint64, bool) {
	s = strings.TrimSpace(s)
	var v uint64
	switch {
	case strings.HasPrefix(s, "#x"):
		_, err := fmt.Sscanf(s[2:], "%x", &v)
		return v, err == nil
	case strings.HasPrefix(s, "#b"):
		for _, c := range s[2:] {
			v = v<<1 | uint64(c-'0')
		}
		return v, true
	case strings.HasPrefix(s, "(_ bv"):
		_, err := fmt.Sscanf(s, "(_ bv%d", &v)
		return v, err == nil
	}
	return 0, false
}
