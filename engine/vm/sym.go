package vm

// Symbolic scalars. A symInt is an SMT bit-vector term with the width and
// signedness of its Go type (so wrap-around is Go's); a symBool is a Bool term.
// Terms are kept as SMT-LIB2 text; large terms are named with define-fun in the
// run's declaration log so that shared sub-terms are not duplicated.

import (
	"fmt"
	"go/token"
	"go/types"
	"strconv"
)

type symInt struct {
	term string
	kind types.BasicKind // Int, Int8.. Uint64, Uintptr
}

type symBool struct{ term string }

func kindBits(k types.BasicKind) int {
	switch k {
	case types.Int8, types.Uint8:
		return 8
	case types.Int16, types.Uint16:
		return 16
	case types.Int32, types.Uint32:
		return 32
	}
	return 64
}

func kindSigned(k types.BasicKind) bool {
	switch k {
	case types.Int, types.Int8, types.Int16, types.Int32, types.Int64:
		return true
	}
	return false
}

func kindOfValue(v value) (types.BasicKind, bool) {
	switch v.(type) {
	case int:
		return types.Int, true
	case int8:
		return types.Int8, true
	case int16:
		return types.Int16, true
	case int32:
		return types.Int32, true
	case int64:
		return types.Int64, true
	case uint:
		return types.Uint, true
	case uint8:
		return types.Uint8, true
	case uint16:
		return types.Uint16, true
	case uint32:
		return types.Uint32, true
	case uint64:
		return types.Uint64, true
	case uintptr:
		return types.Uintptr, true
	}
	return 0, false
}

func bvconst(v uint64, bits int) string {
	switch bits {
	case 8:
		return fmt.Sprintf("#x%02x", uint8(v))
	case 16:
		return fmt.Sprintf("#x%04x", uint16(v))
	case 32:
		return fmt.Sprintf("#x%08x", uint32(v))
	}
	return fmt.Sprintf("#x%016x", v)
}

// concreteOfKind builds the Go value of basic kind k from raw bits.
func concreteOfKind(k types.BasicKind, bits uint64) value {
	switch k {
	case types.Int:
		return int(int64(bits))
	case types.Int8:
		return int8(bits)
	case types.Int16:
		return int16(bits)
	case types.Int32:
		return int32(bits)
	case types.Int64:
		return int64(bits)
	case types.Uint:
		return uint(bits)
	case types.Uint8:
		return uint8(bits)
	case types.Uint16:
		return uint16(bits)
	case types.Uint32:
		return uint32(bits)
	case types.Uint64:
		return bits
	case types.Uintptr:
		return uintptr(bits)
	}
	panic("concreteOfKind: " + strconv.Itoa(int(k)))
}

func termOf(v value) (string, types.BasicKind) {
	switch v := v.(type) {
	case symInt:
		return v.term, v.kind
	}
	k, ok := kindOfValue(v)
	if !ok {
		panic(vmUnsupported(fmt.Sprintf("symbolic operation on %T", v)))
	}
	return bvconst(uint64(asInt64(v)), kindBits(k)), k
}

func boolTerm(v value) string {
	switch v := v.(type) {
	case symBool:
		return v.term
	case bool:
		if v {
			return "true"
		}
		return "false"
	}
	panic(vmUnsupported(fmt.Sprintf("symbolic boolean operation on %T", v)))
}

func isSym(v value) bool {
	switch v.(type) {
	case symInt, symBool:
		return true
	}
	return false
}

// symBinop implements BinOp when at least one operand is symbolic.
func (r *runState) symBinop(op token.Token, x, y value) (value, bool) {
	if !isSym(x) && !isSym(y) {
		return nil, false
	}
	if _, ok := x.(symBool); ok {
		return r.symBoolOp(op, x, y), true
	}
	if _, ok := y.(symBool); ok {
		return r.symBoolOp(op, x, y), true
	}
	a, ka := termOf(x)
	var b string
	var kb types.BasicKind
	switch op {
	case token.SHL, token.SHR:
		// shift count may have a different (unsigned or signed) type
		b, kb = termOf(y)
		b = resize(b, kb, kindBits(ka))
	default:
		b, kb = termOf(y)
		if kindBits(ka) != kindBits(kb) {
			panic(vmUnsupported("symbolic binop on different widths"))
		}
	}
	bits := kindBits(ka)
	signed := kindSigned(ka)
	mk := func(s string) value { return symInt{r.name(s, bits), ka} }
	mb := func(s string) value { return symBool{r.nameBool(s)} }
	switch op {
	case token.ADD:
		return mk("(bvadd " + a + " " + b + ")"), true
	case token.SUB:
		return mk("(bvsub " + a + " " + b + ")"), true
	case token.MUL:
		return mk("(bvmul " + a + " " + b + ")"), true
	case token.QUO:
		// division by a symbolic zero must panic: decide it first
		if _, ok := y.(symInt); ok {
			if r.decide(symBool{"(= " + b + " " + bvconst(0, bits) + ")"}, "div-by-zero") {
				panic(targetRuntimeError("integer divide by zero"))
			}
		}
		if signed {
			return mk("(bvsdiv " + a + " " + b + ")"), true
		}
		return mk("(bvudiv " + a + " " + b + ")"), true
	case token.REM:
		if _, ok := y.(symInt); ok {
			if r.decide(symBool{"(= " + b + " " + bvconst(0, bits) + ")"}, "div-by-zero") {
				panic(targetRuntimeError("integer divide by zero"))
			}
		}
		if signed {
			return mk("(bvsrem " + a + " " + b + ")"), true
		}
		return mk("(bvurem " + a + " " + b + ")"), true
	case token.AND:
		return mk("(bvand " + a + " " + b + ")"), true
	case token.OR:
		return mk("(bvor " + a + " " + b + ")"), true
	case token.XOR:
		return mk("(bvxor " + a + " " + b + ")"), true
	case token.AND_NOT:
		return mk("(bvand " + a + " (bvnot " + b + "))"), true
	case token.SHL:
		// SMT bvshl by >= width yields 0, as Go does.
		return mk("(bvshl " + a + " " + b + ")"), true
	case token.SHR:
		if signed {
			return mk("(bvashr " + a + " " + b + ")"), true
		}
		return mk("(bvlshr " + a + " " + b + ")"), true
	case token.EQL:
		return mb("(= " + a + " " + b + ")"), true
	case token.NEQ:
		return mb("(not (= " + a + " " + b + "))"), true
	case token.LSS:
		if signed {
			return mb("(bvslt " + a + " " + b + ")"), true
		}
		return mb("(bvult " + a + " " + b + ")"), true
	case token.LEQ:
		if signed {
			return mb("(bvsle " + a + " " + b + ")"), true
		}
		return mb("(bvule " + a + " " + b + ")"), true
	case token.GTR:
		if signed {
			return mb("(bvsgt " + a + " " + b + ")"), true
		}
		return mb("(bvugt " + a + " " + b + ")"), true
	case token.GEQ:
		if signed {
			return mb("(bvsge " + a + " " + b + ")"), true
		}
		return mb("(bvuge " + a + " " + b + ")"), true
	}
	panic(vmUnsupported("symbolic binop " + op.String()))
}

func (r *runState) symBoolOp(op token.Token, x, y value) value {
	a, b := boolTerm(x), boolTerm(y)
	switch op {
	case token.EQL:
		return symBool{r.nameBool("(= " + a + " " + b + ")")}
	case token.NEQ:
		return symBool{r.nameBool("(xor " + a + " " + b + ")")}
	case token.AND, token.LAND:
		return symBool{r.nameBool("(and " + a + " " + b + ")")}
	case token.OR, token.LOR:
		return symBool{r.nameBool("(or " + a + " " + b + ")")}
	}
	panic(vmUnsupported("symbolic bool binop " + op.String()))
}

func (r *runState) symUnop(op token.Token, x value) (value, bool) {
	switch v := x.(type) {
	case symBool:
		if op == token.NOT {
			return symBool{"(not " + v.term + ")"}, true
		}
	case symInt:
		bits := kindBits(v.kind)
		switch op {
		case token.SUB:
			return symInt{r.name("(bvneg "+v.term+")", bits), v.kind}, true
		case token.XOR:
			return symInt{r.name("(bvnot "+v.term+")", bits), v.kind}, true
		}
	default:
		return nil, false
	}
	panic(vmUnsupported("symbolic unop " + op.String()))
}

func resize(term string, from types.BasicKind, toBits int) string {
	fb := kindBits(from)
	switch {
	case fb == toBits:
		return term
	case fb > toBits:
		return fmt.Sprintf("((_ extract %d 0) %s)", toBits-1, term)
	case kindSigned(from):
		return fmt.Sprintf("((_ sign_extend %d) %s)", toBits-fb, term)
	}
	return fmt.Sprintf("((_ zero_extend %d) %s)", toBits-fb, term)
}

// symConv implements Convert for a symbolic integer operand to an integer type.
func (r *runState) symConv(dst types.Type, x symInt) value {
	b, ok := dst.Underlying().(*types.Basic)
	if !ok || b.Info()&types.IsInteger == 0 {
		// conversion to string/float etc.: concretise first
		return nil
	}
	k := b.Kind()
	return symInt{r.name(resize(x.term, x.kind, kindBits(k)), kindBits(k)), k}
}
