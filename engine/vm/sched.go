package vm

// Coroutine scheduler. Every VM goroutine is a host goroutine, but exactly one
// holds the baton at any time, so a run is sequential and deterministic given
// its decision vector. Context switches happen only at scheduling points:
// vrt.Yield / vrt.Quiesce, blocking operations (mutex held by another
// goroutine, channel not ready, select without ready case) and goroutine exit.
// Where more than one goroutine may continue, the choice is a solver-decided
// decision like any other (explore.go).

import (
	"fmt"
	"go/token"
	"go/types"

	"golang.org/x/tools/go/ssa"
)

type vmG struct {
	id         int
	name       string
	resume     chan struct{}
	done       bool
	background bool        // started by a `go` statement of non-harness code
	ready      func() bool // nil = runnable; else runnable iff ready()
	waitWhat   string
	quiescing  bool
	depth      int
	exited     chan struct{}
	vc         vclock
}

type scheduler struct {
	i        *interpreter
	gs       []*vmG
	current  *vmG
	killed   bool
	abort    interface{} // pending abort raised in a non-main goroutine
	preempt  bool        // background goroutines eligible at Yield
	switches int
	g2budget int         // remaining pre-emptions at synchronisation points (vrt.G2)
	g2points int64       // synchronisation points passed while the budget was > 0
}

func newScheduler(i *interpreter) *scheduler {
	s := &scheduler{i: i}
	main := &vmG{id: 0, name: "main", resume: make(chan struct{}, 1)}
	s.gs = []*vmG{main}
	s.current = main
	return s
}

func (s *scheduler) live() int {
	n := 0
	for _, g := range s.gs {
		if !g.done {
			n++
		}
	}
	return n
}

func (g *vmG) runnable() bool { return !g.done && (g.ready == nil || g.ready()) }

// spawn creates a goroutine; the creator keeps running.
func (s *scheduler) spawn(fr *frame, fn value, args []value, name string) *vmG {
	g := &vmG{id: len(s.gs), name: name, resume: make(chan struct{}, 1), background: true, exited: make(chan struct{})}
	s.gs = append(s.gs, g)
	i := s.i
	if i.race != nil && i.race.on {
		// goroutine start: everything the creator did happens before the child
		g.vc = s.current.vc.copyOf()
		g.tick()
		s.current.tick()
	}
	go func() {
		defer close(g.exited)
		<-g.resume
		if s.killed {
			return
		}
		defer func() {
			p := recover()
			if i.race != nil && i.race.on && s.current == g {
				i.release(g) // goroutine end (joined by vrt.WaitAll)
			}
			g.done = true
			if p != nil {
				if _, ok := p.(vmKill); ok {
					return
				}
				if !isVMAbort(p) {
					// uncaught target panic in a goroutine: natively this
					// crashes the process
					s.i.run.fail("ENGINE.goroutine_panic", "uncaught panic in goroutine "+g.name+": "+panicString(p))
					p = vmPathEnd{"goroutine panic"}
				}
				if s.abort == nil {
					s.abort = p
				}
				// hand the baton to main so that the run unwinds
				s.handoff(s.gs[0])
				return
			}
			s.afterExit()
		}()
		call(i, nil, token.NoPos, fn, args)
	}()
	return g
}

func panicString(p interface{}) string {
	switch p := p.(type) {
	case targetPanic:
		return toString(p.v)
	case error:
		return p.Error()
	}
	return fmt.Sprint(p)
}

// handoff passes the baton to g without waiting (caller is exiting).
func (s *scheduler) handoff(g *vmG) {
	s.current = g
	g.resume <- struct{}{}
}

// switchTo passes the baton to next and parks the current goroutine until the
// baton comes back.
func (s *scheduler) switchTo(next *vmG) {
	cur := s.current
	if next == cur {
		return
	}
	s.switches++
	s.current = next
	next.resume <- struct{}{}
	<-cur.resume
	if s.killed {
		panic(vmKill{})
	}
	if s.abort != nil && cur.id == 0 {
		p := s.abort
		s.abort = nil
		panic(p)
	}
}

// candidates lists goroutines that may run next, in creation order.
// voluntary: the caller is at a Yield (it stays runnable itself).
func (s *scheduler) candidates(voluntary bool) []*vmG {
	var fg, bg []*vmG
	quiescing := false
	for _, g := range s.gs {
		if g.quiescing && !g.done {
			quiescing = true
		}
	}
	for _, g := range s.gs {
		if g.quiescing {
			continue // decided below
		}
		if !g.runnable() {
			continue
		}
		if g.background {
			bg = append(bg, g)
		} else {
			fg = append(fg, g)
		}
	}
	if quiescing && len(bg) > 0 {
		return bg
	}
	// quiescing goroutines become runnable once no background goroutine can run
	for _, g := range s.gs {
		if g.quiescing && !g.done && len(bg) == 0 {
			fg = append(fg, g)
		}
	}
	if s.preempt {
		return append(fg, bg...)
	}
	if len(fg) > 0 {
		return fg
	}
	return bg
}

func (s *scheduler) pick(c []*vmG, why string) *vmG {
	if len(c) == 1 {
		return c[0]
	}
	if !s.preempt {
		// the relative order of container-spawned watcher goroutines is a
		// decision only when the harness asks for it (vrt.Preempt)
		allBg := true
		for _, g := range c {
			if !g.background {
				allBg = false
			}
		}
		if allBg {
			return c[0]
		}
	}
	k := s.i.run.choose(len(c), "sched")
	return c[k]
}

// yield is a voluntary scheduling point.
func (s *scheduler) yield() {
	c := s.candidates(true)
	if len(c) == 0 {
		return
	}
	next := s.pick(c, "yield")
	s.switchTo(next)
}

// syncPoint is an involuntary scheduling point (G2): the current harness
// goroutine is about to perform a synchronisation operation of the code under
// analysis (mutex acquisition, atomic operation, sync.Map / sync.Once
// operation). While the pre-emption budget lasts, whether another harness
// goroutine runs first is a solver-enumerated choice like at a Yield.
func (s *scheduler) syncPoint() {
	if s.g2budget <= 0 || s.current.background {
		return
	}
	s.g2points++
	s.i.run.intrinsics["vm.G2 scheduling point (synchronisation call of the code under analysis)"]++
	c := s.candidates(true)
	if len(c) < 2 {
		return
	}
	next := s.pick(c, "g2")
	if next != s.current {
		s.g2budget--
		s.i.run.intrinsics["vm.G2 pre-emption taken"]++
		s.switchTo(next)
	}
}

// isSyncOp reports whether a call to fn from the code under analysis is a G2
// scheduling point. tools/instrument (native replay) uses the same rule.
func isSyncOp(fn *ssa.Function) bool {
	if fn == nil {
		return false
	}
	var pkg string
	if o := fn.Origin(); o != nil && o != fn {
		// an instantiation of a generic function or method (atomic.Pointer[T].Load ...)
		return isSyncOp(o)
	}
	if fn.Pkg != nil {
		pkg = fn.Pkg.Pkg.Path()
	} else if o := fn.Object(); o != nil && o.Pkg() != nil {
		pkg = o.Pkg().Path()
	}
	switch pkg {
	case "sync/atomic":
		return true
	case "sync":
		recv := fn.Signature.Recv()
		if recv == nil {
			return false
		}
		t := recv.Type()
		if p, ok := t.(*types.Pointer); ok {
			t = p.Elem()
		}
		n, ok := t.(*types.Named)
		if !ok {
			return false
		}
		switch n.Obj().Name() {
		case "Mutex":
			return fn.Name() == "Lock"
		case "RWMutex":
			return fn.Name() == "Lock" || fn.Name() == "RLock"
		case "Map":
			return true
		case "Once":
			return fn.Name() == "Do"
		}
	}
	return false
}

// park blocks the current goroutine until ready() holds.
func (s *scheduler) park(ready func() bool, what string) {
	cur := s.current
	for !ready() {
		cur.ready = ready
		cur.waitWhat = what
		c := s.candidates(false)
		// the current goroutine is not a candidate: ready() is false
		if len(c) == 0 {
			cur.ready = nil
			s.i.run.deadlock(s.describe())
			panic(vmPathEnd{"deadlock"})
		}
		next := s.pick(c, "block")
		s.switchTo(next)
	}
	cur.ready = nil
	cur.waitWhat = ""
}

// quiesce lets background goroutines run until none is runnable.
func (s *scheduler) quiesce() {
	cur := s.current
	for {
		any := false
		for _, g := range s.gs {
			if g != cur && g.background && g.runnable() {
				any = true
			}
		}
		if !any {
			return
		}
		cur.quiescing = true
		c := s.candidates(false)
		next := s.pick(c, "quiesce")
		s.switchTo(next)
		cur.quiescing = false
	}
}

// afterExit is called by an exiting goroutine (already marked done).
func (s *scheduler) afterExit() {
	c := s.candidates(false)
	if len(c) == 0 {
		// nothing can run: if main is parked this is a deadlock; wake it so the
		// run can report.
		main := s.gs[0]
		if !main.done {
			if s.abort == nil {
				s.i.run.deadlock(s.describe())
				s.abort = vmPathEnd{"deadlock"}
			}
			s.handoff(main)
		}
		return
	}
	next := s.pick(c, "exit")
	s.handoff(next)
}

func (s *scheduler) describe() string {
	out := ""
	for _, g := range s.gs {
		if g.done {
			continue
		}
		out += fmt.Sprintf("[g%d %s waiting on %s] ", g.id, g.name, g.waitWhat)
	}
	return out
}

// killAll unwinds every parked goroutine at the end of a run.
func (s *scheduler) killAll() {
	s.killed = true
	for _, g := range s.gs[1:] {
		if !g.done || true {
			select {
			case g.resume <- struct{}{}:
			default:
			}
		}
	}
	for _, g := range s.gs[1:] {
		<-g.exited
	}
}

// ---- channels

type sendWait struct {
	v     value
	taken bool
}

type vmchan struct {
	cap    int
	buf    []value
	closed bool
	sendq  []*sendWait
}

func newChan(cap int) *vmchan { return &vmchan{cap: cap} }

func (c *vmchan) length() int {
	if c == nil {
		return 0
	}
	return len(c.buf)
}
func (c *vmchan) capacity() int {
	if c == nil {
		return 0
	}
	return c.cap
}

func (c *vmchan) recvReady() bool {
	return c != nil && (len(c.buf) > 0 || len(c.sendq) > 0 || c.closed)
}

func (c *vmchan) sendReady(s *scheduler) bool {
	return c != nil && (c.closed || len(c.buf) < c.cap)
}

func chanClose(i *interpreter, c *vmchan) {
	if c == nil {
		panic(targetRuntimeError("close of nil channel"))
	}
	if c.closed {
		panic(targetRuntimeError("close of closed channel"))
	}
	i.release(c)
	c.closed = true
}

func chanSend(fr *frame, c *vmchan, v value) {
	s := fr.i.sched
	if c == nil {
		s.park(func() bool { return false }, "send on nil channel")
	}
	if c.closed {
		panic(targetRuntimeError("send on closed channel"))
	}
	fr.i.release(c)
	if len(c.buf) < c.cap {
		c.buf = append(c.buf, v)
		return
	}
	w := &sendWait{v: v}
	c.sendq = append(c.sendq, w)
	s.park(func() bool { return w.taken || c.closed }, "chan send")
	if !w.taken {
		panic(targetRuntimeError("send on closed channel"))
	}
}

func (c *vmchan) take() (value, bool) {
	if len(c.buf) > 0 {
		v := c.buf[0]
		c.buf = c.buf[1:]
		if len(c.sendq) > 0 {
			w := c.sendq[0]
			c.sendq = c.sendq[1:]
			c.buf = append(c.buf, w.v)
			w.taken = true
		}
		return v, true
	}
	if len(c.sendq) > 0 {
		w := c.sendq[0]
		c.sendq = c.sendq[1:]
		w.taken = true
		return w.v, true
	}
	return nil, false
}

func chanRecv(fr *frame, c *vmchan) (value, bool) {
	s := fr.i.sched
	if c == nil {
		s.park(func() bool { return false }, "receive from nil channel")
	}
	for {
		if v, ok := c.take(); ok {
			fr.i.acquire(c)
			return v, true
		}
		if c.closed {
			fr.i.acquire(c)
			return nil, false
		}
		s.park(c.recvReady, "chan receive")
	}
}

func doSelect(fr *frame, instr *ssa.Select) value {
	s := fr.i.sched
	type cs struct {
		c    *vmchan
		send bool
		v    value
	}
	var cases []cs
	for _, st := range instr.States {
		c, _ := fr.get(st.Chan).(*vmchan)
		x := cs{c: c, send: st.Dir == types.SendOnly}
		if x.send {
			x.v = fr.get(st.Send)
		}
		cases = append(cases, x)
	}
	readyIdx := func() int {
		for i, x := range cases {
			if x.c == nil {
				continue
			}
			if x.send {
				if x.c.closed || len(x.c.buf) < x.c.cap {
					return i
				}
			} else if x.c.recvReady() {
				return i
			}
		}
		return -1
	}
	chosen := readyIdx()
	if chosen < 0 {
		if !instr.Blocking {
			chosen = -1
		} else {
			s.park(func() bool { return readyIdx() >= 0 }, "select")
			chosen = readyIdx()
		}
	}
	recvOk := false
	var recv value
	if chosen >= 0 {
		x := cases[chosen]
		if x.send {
			if x.c.closed {
				panic(targetRuntimeError("send on closed channel"))
			}
			x.c.buf = append(x.c.buf, x.v)
		} else {
			recv, recvOk = x.c.take()
			fr.i.acquire(x.c)
		}
	}
	r := tuple{chosen, recvOk}
	for i, st := range instr.States {
		if st.Dir == types.RecvOnly {
			var v value
			if i == chosen && recvOk {
				v = recv
			} else {
				v = zero(st.Chan.Type().Underlying().(*types.Chan).Elem())
			}
			r = append(r, v)
		}
	}
	return r
}

// ---- mutexes

type vmMutex struct {
	writer  *vmG
	readers int
}

func (i *interpreter) mutex(addr *value) *vmMutex {
	m := i.mutexes[addr]
	if m == nil {
		m = &vmMutex{}
		i.mutexes[addr] = m
	}
	return m
}

func init() {
	lock := func(fr *frame, a []value) value {
		m := fr.i.mutex(a[0].(*value))
		fr.i.sched.park(func() bool { return m.writer == nil && m.readers == 0 }, "mutex Lock")
		m.writer = fr.i.sched.current
		fr.i.acquire(m)
		return nil
	}
	unlock := func(fr *frame, a []value) value {
		m := fr.i.mutex(a[0].(*value))
		if m.writer == nil {
			panic(targetStringPanic("sync: unlock of unlocked mutex"))
		}
		fr.i.release(m)
		m.writer = nil
		return nil
	}
	rlock := func(fr *frame, a []value) value {
		m := fr.i.mutex(a[0].(*value))
		fr.i.sched.park(func() bool { return m.writer == nil }, "mutex RLock")
		m.readers++
		fr.i.acquire(m)
		return nil
	}
	runlock := func(fr *frame, a []value) value {
		m := fr.i.mutex(a[0].(*value))
		if m.readers == 0 {
			panic(targetStringPanic("sync: RUnlock of unlocked RWMutex"))
		}
		fr.i.release(m)
		m.readers--
		return nil
	}
	trylock := func(fr *frame, a []value) value {
		m := fr.i.mutex(a[0].(*value))
		if m.writer == nil && m.readers == 0 {
			m.writer = fr.i.sched.current
			return true
		}
		return false
	}
	externals["(*sync.Mutex).Lock"] = lock
	externals["(*sync.Mutex).Unlock"] = unlock
	externals["(*sync.Mutex).TryLock"] = trylock
	externals["(*sync.RWMutex).Lock"] = lock
	externals["(*sync.RWMutex).Unlock"] = unlock
	externals["(*sync.RWMutex).RLock"] = rlock
	externals["(*sync.RWMutex).RUnlock"] = runlock
	externals["(*sync.RWMutex).TryLock"] = trylock
	externals["runtime.Gosched"] = func(fr *frame, a []value) value { fr.i.sched.yield(); return nil }
	externals["time.Sleep"] = func(fr *frame, a []value) value { fr.i.sched.yield(); return nil }
}
