package vm

// Intrinsics: everything that is NOT executed from the SSA of the code under
// analysis. The complete list is the key set of `externals` (reported in the
// evidence as `intrinsics` with hit counts).

import (
	"fmt"
	"go/token"
	"go/types"
	"sort"
	"strconv"
	"strings"
	"unsafe"

	"golang.org/x/tools/go/ssa"
)

const vrtPath = "github.com/junioryono/godi/v4/zzverif/vrt"

// ---- VM-owned opaque types

var vmCtxType = makeNamedType("vmctx", &opaqueType{nil, "vmctx"})
var wrapErrType = makeNamedType("wraperr", &opaqueType{nil, "wraperr"})

type vmCtx struct {
	parent    *vmCtx
	key, val  value
	hasKey    bool
	cancelCtx bool
	done      *vmchan
	cancelled bool
	err       string // "canceled" | "deadline"
	children  []*vmCtx
	firesAt   int // for WithTimeout: Done() poll index at which it fires (-1 never)
	detached  bool // context.WithoutCancel: values of the parent, not its cancellation
	polls     int
}

func (c *vmCtx) cancel(why string) {
	if c.cancelled {
		return
	}
	c.cancelled = true
	c.err = why
	if c.done != nil && !c.done.closed {
		c.done.closed = true
	}
	for _, ch := range c.children {
		ch.cancel(why)
	}
}

// nearest cancellable ancestor (or self)
func (c *vmCtx) canceller() *vmCtx {
	for x := c; x != nil; x = x.parent {
		if x.cancelCtx {
			return x
		}
		if x.detached {
			return nil
		}
	}
	return nil
}

func ctxOf(v value) *vmCtx {
	it, ok := v.(iface)
	if !ok || it.t == nil {
		panic(targetStringPanic("cannot create context from nil parent"))
	}
	c, ok := it.v.(*vmCtx)
	if !ok {
		panic(vmUnsupported("context derived from a non-VM context type " + it.t.String()))
	}
	return c
}

func (i *interpreter) globalValue(pkg, name string) value {
	p := i.prog.ImportedPackage(pkg)
	if p == nil {
		return iface{}
	}
	g := p.Var(name)
	if g == nil {
		return iface{}
	}
	if cell, ok := i.globals[g]; ok {
		return *cell
	}
	return iface{}
}

func mkWrapErr(msg string, wrapped iface) iface {
	return iface{wrapErrType, &wrapErr{msg: msg, wrapped: wrapped}}
}

type wrapErr struct {
	msg     string
	wrapped iface
}

// ---- errors helpers

func (i *interpreter) findMethod(t types.Type, name string) *ssa.Function {
	if n, ok := t.(*types.Named); ok && n.Obj().Pkg() == reflectTypesPackage {
		return i.fakeMethod(n, name)
	}
	sel := i.prog.MethodSets.MethodSet(t).Lookup(nil, name)
	if sel == nil {
		// unexported or absent; try by scanning (exported names only matter here)
		return nil
	}
	return i.prog.MethodValue(sel)
}

func unwrapErr(fr *frame, e iface) []iface {
	if e.t == nil {
		return nil
	}
	if w, ok := e.v.(*wrapErr); ok {
		if w.wrapped.t == nil {
			return nil
		}
		return []iface{w.wrapped}
	}
	m := fr.i.findMethod(e.t, "Unwrap")
	if m == nil {
		return nil
	}
	sig := m.Signature
	if sig.Params().Len() != 0 || sig.Results().Len() != 1 {
		return nil
	}
	r := call(fr.i, fr, token.NoPos, m, []value{e.v})
	switch r := r.(type) {
	case iface:
		if r.t == nil {
			return nil
		}
		return []iface{r}
	case []value:
		var out []iface
		for _, x := range r {
			if xi := x.(iface); xi.t != nil {
				out = append(out, xi)
			}
		}
		return out
	}
	return nil
}

// atomicSync makes an atomic operation a synchronisation event on its address:
// loads acquire, stores release, read-modify-write operations do both.
func atomicSync(name string, f externalFn) externalFn {
	load := strings.Contains(name, ".Load")
	store := strings.Contains(name, ".Store")
	return func(fr *frame, a []value) value {
		addr := a[0].(*value)
		if !store {
			fr.i.acquire(addr)
		}
		r := f(fr, a)
		if !load {
			fr.i.release(addr)
		}
		return r
	}
}

func syncMapSync(name string, f externalFn) externalFn {
	load := strings.HasSuffix(name, ".Load") || strings.HasSuffix(name, ".Range")
	return func(fr *frame, a []value) value {
		addr := a[0].(*value)
		fr.i.acquire(addr)
		r := f(fr, a)
		if !load {
			fr.i.release(addr)
		}
		return r
	}
}

func isVMType(t types.Type) bool {
	n, ok := t.(*types.Named)
	return ok && n.Obj().Pkg() == reflectTypesPackage
}

func errorsIs(fr *frame, err, target iface) bool {
	if err.t == nil || target.t == nil {
		return err.t == nil && target.t == nil
	}
	comparable := isVMType(target.t) || types.Comparable(target.t)
	var walk func(e iface) bool
	walk = func(e iface) bool {
		for e.t != nil {
			if comparable && sameType(e.t, target.t) && equalsOrNil(e.t, e.v, target.v) {
				return true
			}
			if m := fr.i.findMethod(e.t, "Is"); m != nil && m.Signature.Params().Len() == 1 && m.Signature.Results().Len() == 1 {
				if b, ok := call(fr.i, fr, token.NoPos, m, []value{e.v, target}).(bool); ok && b {
					return true
				}
			}
			next := unwrapErr(fr, e)
			switch len(next) {
			case 0:
				return false
			case 1:
				e = next[0]
			default:
				for _, n := range next {
					if walk(n) {
						return true
					}
				}
				return false
			}
		}
		return false
	}
	return walk(err)
}

func errorsAs(fr *frame, err, target iface) bool {
	if target.t == nil {
		panic(targetStringPanic("errors: target cannot be nil"))
	}
	ptr, ok := target.t.Underlying().(*types.Pointer)
	if !ok {
		panic(targetStringPanic("errors: target must be a non-nil pointer"))
	}
	pt := ptr.Elem()
	dst := target.v.(*value)
	var walk func(e iface) bool
	walk = func(e iface) bool {
		for e.t != nil {
			if isIfaceType(pt) {
				if types.Implements(e.t, pt.Underlying().(*types.Interface)) {
					*dst = e
					return true
				}
			} else if types.Identical(e.t, pt) {
				*dst = copyVal(e.v)
				return true
			}
			if m := fr.i.findMethod(e.t, "As"); m != nil && m.Signature.Params().Len() == 1 {
				if b, ok := call(fr.i, fr, token.NoPos, m, []value{e.v, target}).(bool); ok && b {
					return true
				}
			}
			next := unwrapErr(fr, e)
			switch len(next) {
			case 0:
				return false
			case 1:
				e = next[0]
			default:
				for _, n := range next {
					if walk(n) {
						return true
					}
				}
				return false
			}
		}
		return false
	}
	return walk(err)
}

// ---- formatting on concrete values

func (i *interpreter) hostArg(fr *frame, v value) interface{} {
	switch x := v.(type) {
	case iface:
		if x.t == nil {
			return nil
		}
		if rt, ok := x.v.(rtype); ok {
			return typeString(rt.t)
		}
		if w, ok := x.v.(*wrapErr); ok {
			return w.msg
		}
		if _, ok := x.v.(*vmCtx); ok {
			return "context"
		}
		// error / Stringer: call through the VM
		for _, mn := range []string{"Error", "String"} {
			if m := i.findMethod(x.t, mn); m != nil && m.Signature.Params().Len() == 0 && m.Signature.Results().Len() == 1 {
				if b, ok := m.Signature.Results().At(0).Type().(*types.Basic); ok && b.Kind() == types.String {
					if s, ok := call(i, fr, token.NoPos, m, []value{x.v}).(string); ok {
						return s
					}
				}
			}
		}
		return i.hostArg(fr, x.v)
	case symInt:
		return i.hostArg(fr, i.run.concretize(x))
	case symBool:
		return i.run.decide(x, "format")
	case bool, int, int8, int16, int32, int64, uint, uint8, uint16, uint32, uint64, uintptr, float32, float64, string:
		return x
	case *value:
		if x == nil {
			return "<nil>"
		}
		return "<ptr>"
	case []value:
		out := make([]interface{}, len(x))
		for k := range x {
			out[k] = i.hostArg(fr, x[k])
		}
		return out
	case structure:
		out := make([]interface{}, len(x))
		for k := range x {
			out[k] = i.hostArg(fr, x[k])
		}
		return out
	case rtype:
		return typeString(x.t)
	}
	return fmt.Sprintf("<%T>", v)
}

func (i *interpreter) sprintf(fr *frame, format string, args []value) string {
	hs := make([]interface{}, len(args))
	for k, a := range args {
		hs[k] = i.hostArg(fr, a)
	}
	return fmt.Sprintf(strings.ReplaceAll(format, "%w", "%v"), hs...)
}

func findWrapped(format string, args []value) iface {
	var wrapped iface
	ai := 0
	for i := 0; i < len(format)-1; i++ {
		if format[i] == '%' {
			if format[i+1] == '%' {
				i++
				continue
			}
			j := i + 1
			for j < len(format) && strings.ContainsRune("+-# 0123456789.", rune(format[j])) {
				j++
			}
			if j < len(format) && format[j] == 'w' && ai < len(args) {
				if w, ok := args[ai].(iface); ok && wrapped.t == nil {
					wrapped = w
				}
			}
			ai++
			i = j
		}
	}
	return wrapped
}

// ---- heap walk for vrt.Reachable

func (i *interpreter) reachable(root, target value) bool {
	var tp *value
	if it, ok := target.(iface); ok {
		if p, ok := it.v.(*value); ok {
			tp = p
		}
	}
	if tp == nil {
		panic(vmUnsupported("vrt.Reachable/Released: target must be a pointer"))
	}
	_, found := i.walkHeap(root, tp)
	return found
}

// walkHeap visits everything reachable from root (through unexported fields,
// maps, slices, closures, contexts, sync.Map contents); it returns the number
// of distinct heap cells seen and whether the cell tp was among them.
func (i *interpreter) walkHeap(root value, tp *value) (int, bool) {
	seenP := map[*value]bool{}
	seenM := map[*hashmap]bool{}
	seenS := map[*value]bool{}
	seenC := map[*vmCtx]bool{}
	found := false
	cells := 0
	var walk func(v value, depth int)
	walk = func(v value, depth int) {
		if depth > 100000 {
			return
		}
		switch x := v.(type) {
		case *value:
			if x == nil {
				return
			}
			if x == tp {
				found = true
			}
			if seenP[x] {
				return
			}
			seenP[x] = true
			cells++
			if m := i.syncMaps[x]; m != nil {
				walk(m, depth+1)
			}
			walk(*x, depth+1)
		case iface:
			walk(x.v, depth+1)
		case structure:
			for k := range x {
				if &x[k] == tp {
					found = true
				}
				if m := i.syncMaps[&x[k]]; m != nil {
					walk(m, depth+1)
				}
				walk(x[k], depth+1)
			}
		case array:
			for k := range x {
				if &x[k] == tp {
					found = true
				}
				walk(x[k], depth+1)
			}
		case []value:
			full := x[:cap(x)]
			if len(full) > 0 {
				if seenS[&full[0]] {
					return
				}
				seenS[&full[0]] = true
				cells++
			}
			// only the elements up to len are live for the program, but the
			// backing array beyond len still pins what it holds: walk it all
			for k := range full {
				walk(full[k], depth+1)
			}
		case *hashmap:
			if x == nil || seenM[x] {
				return
			}
			seenM[x] = true
			cells++
			for _, e := range x.live() {
				walk(e.key, depth+1)
				walk(e.value, depth+1)
			}
		case *closure:
			for _, e := range x.Env {
				walk(e, depth+1)
			}
		case *nativeFn:
			if x.ctx != nil {
				walk(x.ctx, depth+1)
			}
		case *vmCtx:
			if x == nil || seenC[x] {
				return
			}
			seenC[x] = true
			cells++
			walk(x.key, depth+1)
			walk(x.val, depth+1)
			if x.parent != nil {
				walk(x.parent, depth+1)
			}
			// a cancellable context keeps its live children reachable
			for _, ch := range x.children {
				if !ch.cancelled {
					walk(ch, depth+1)
				}
			}
		case *wrapErr:
			walk(x.wrapped, depth+1)
		case tuple:
			for k := range x {
				walk(x[k], depth+1)
			}
		}
	}
	walk(root, 0)
	return cells, found
}

// contexts keep derived children in `children` even after the child is
// cancelled; drop cancelled ones so that Reachable sees what Go's context
// package does (a cancelled child removes itself from its parent).
func (c *vmCtx) pruneChildren() {
	out := c.children[:0]
	for _, ch := range c.children {
		if !ch.cancelled {
			out = append(out, ch)
		}
	}
	c.children = out
}

func init() {
	hit := func(name string, f externalFn) externalFn {
		return func(fr *frame, a []value) value {
			fr.i.run.intrinsics[name]++
			return f(fr, a)
		}
	}
	ext := map[string]externalFn{
		// ---------------- vrt
		vrtPath + ".Symbolic": func(fr *frame, a []value) value { return true },
		vrtPath + ".Int": func(fr *frame, a []value) value {
			return fr.i.run.newInput(a[0].(string), int64(a[1].(int)), int64(a[2].(int)))
		},
		vrtPath + ".Pick": func(fr *frame, a []value) value {
			return fr.i.run.concrete(fr.i.run.newInput(a[0].(string), int64(a[1].(int)), int64(a[2].(int))))
		},
		vrtPath + ".Bool": func(fr *frame, a []value) value {
			name := a[0].(string)
			if c, ok := fr.i.run.ex.cfg.Concrete[name]; ok {
				return c != 0
			}
			qn := "|" + name + "|"
			fr.i.run.declare(qn, "bool")
			return symBool{qn}
		},
		vrtPath + ".Param": func(fr *frame, a []value) value {
			if v, ok := fr.i.run.ex.cfg.Params[a[0].(string)]; ok {
				return v
			}
			return a[1].(int)
		},
		vrtPath + ".Assume": func(fr *frame, a []value) value { fr.i.run.assume(a[0]); return nil },
		vrtPath + ".Assert": func(fr *frame, a []value) value {
			msg := ""
			if c, ok := a[0].(bool); !ok || !c {
				if rest, ok := a[2].([]value); ok && len(rest) > 0 {
					parts := make([]string, len(rest))
					for k, x := range rest {
						parts[k] = fmt.Sprint(fr.i.hostArg(fr, x))
					}
					msg = strings.Join(parts, " ")
				}
			}
			fr.i.run.assertCond(a[0], a[1].(string), msg)
			return nil
		},
		vrtPath + ".Cover": func(fr *frame, a []value) value { fr.i.run.covers[a[0].(string)] = true; return nil },
		vrtPath + ".Finding": func(fr *frame, a []value) value {
			c := fr.i.run.concrete(a[1]).(bool)
			if c {
				fr.i.run.findings[a[0].(string)] = true
			}
			return nil
		},
		vrtPath + ".Limit": func(fr *frame, a []value) value { fr.i.run.limitID = a[0].(string); return nil },
		vrtPath + ".Go": func(fr *frame, a []value) value {
			g := fr.i.sched.spawn(fr, a[1], nil, a[0].(string))
			g.background = false
			return nil
		},
		vrtPath + ".Yield":   func(fr *frame, a []value) value { fr.i.sched.yield(); return nil },
		vrtPath + ".Quiesce": func(fr *frame, a []value) value { fr.i.sched.quiesce(); return nil },
		vrtPath + ".WaitAll": func(fr *frame, a []value) value {
			s := fr.i.sched
			cur := s.current
			s.park(func() bool {
				for _, g := range s.gs {
					if g != cur && !g.background && !g.done && g.id != 0 {
						return false
					}
				}
				return true
			}, "vrt.WaitAll")
			for _, g := range s.gs {
				if g != cur && g.done {
					fr.i.acquire(g)
				}
			}
			return nil
		},
		vrtPath + ".RaceDetect": func(fr *frame, a []value) value {
			fr.i.race.on = a[0].(bool)
			if fr.i.race.on {
				for _, g := range fr.i.sched.gs {
					if g.vc == nil {
						g.vc = vclock{}
						g.tick()
					}
				}
			}
			return nil
		},
		vrtPath + ".G2": func(fr *frame, a []value) value {
			fr.i.sched.g2budget = fr.i.run.concrete(a[0]).(int)
			return nil
		},
		vrtPath + ".Preempt": func(fr *frame, a []value) value { fr.i.sched.preempt = a[0].(bool); return nil },
		vrtPath + ".SetMapOrder": func(fr *frame, a []value) value {
			fr.i.run.orderVal = fr.i.run.concrete(a[0]).(int)
			return nil
		},
		vrtPath + ".Goroutines": func(fr *frame, a []value) value { return fr.i.sched.live() },
		vrtPath + ".Reachable": func(fr *frame, a []value) value { return fr.i.reachable(a[0], a[1]) },
		vrtPath + ".Track": func(fr *frame, a []value) value {
			fr.i.tracked = append(fr.i.tracked, a[0])
			return len(fr.i.tracked) - 1
		},
		vrtPath + ".Released": func(fr *frame, a []value) value {
			return !fr.i.reachable(a[0], fr.i.tracked[a[1].(int)])
		},
		vrtPath + ".HeapSize": func(fr *frame, a []value) value {
			n, _ := fr.i.walkHeap(a[0], nil)
			return n
		},
		vrtPath + ".Trace": func(fr *frame, a []value) value {
			fr.i.run.obs = append(fr.i.run.obs, fr.i.sprintf(fr, a[0].(string), a[1].([]value)))
			return nil
		},

		// ---------------- fmt / errors / strings / strconv
		"fmt.Errorf": func(fr *frame, a []value) value {
			format := a[0].(string)
			args := a[1].([]value)
			return mkWrapErr(fr.i.sprintf(fr, format, args), findWrapped(format, args))
		},
		"fmt.Sprintf": func(fr *frame, a []value) value { return fr.i.sprintf(fr, a[0].(string), a[1].([]value)) },
		"fmt.Sprint": func(fr *frame, a []value) value {
			args := a[0].([]value)
			hs := make([]interface{}, len(args))
			for k := range args {
				hs[k] = fr.i.hostArg(fr, args[k])
			}
			return fmt.Sprint(hs...)
		},
		"fmt.Println": func(fr *frame, a []value) value { return tuple{0, iface{}} },
		"fmt.Printf":  func(fr *frame, a []value) value { return tuple{0, iface{}} },
		"(reflect.wraperr).Error": func(fr *frame, a []value) value { return a[0].(*wrapErr).msg },
		"(reflect.wraperr).Unwrap": func(fr *frame, a []value) value { return a[0].(*wrapErr).wrapped },
		"errors.Is": func(fr *frame, a []value) value { return errorsIs(fr, a[0].(iface), a[1].(iface)) },
		"errors.As": func(fr *frame, a []value) value { return errorsAs(fr, a[0].(iface), a[1].(iface)) },
		"errors.Unwrap": func(fr *frame, a []value) value {
			n := unwrapErr(fr, a[0].(iface))
			if len(n) == 1 {
				return n[0]
			}
			return iface{}
		},
		"errors.Join": func(fr *frame, a []value) value {
			panic(vmUnsupported("errors.Join"))
		},
		"strconv.FormatUint": func(fr *frame, a []value) value { return strconv.FormatUint(a[0].(uint64), a[1].(int)) },
		"strconv.FormatInt":  func(fr *frame, a []value) value { return strconv.FormatInt(a[0].(int64), a[1].(int)) },
		"strconv.Itoa":       func(fr *frame, a []value) value { return strconv.Itoa(a[0].(int)) },
		"strings.ContainsRune": func(fr *frame, a []value) value { return strings.ContainsRune(a[0].(string), a[1].(rune)) },
		"strings.Contains":     func(fr *frame, a []value) value { return strings.Contains(a[0].(string), a[1].(string)) },
		"strings.HasPrefix":    func(fr *frame, a []value) value { return strings.HasPrefix(a[0].(string), a[1].(string)) },
		"strings.HasSuffix":    func(fr *frame, a []value) value { return strings.HasSuffix(a[0].(string), a[1].(string)) },
		"strings.ToLower":      func(fr *frame, a []value) value { return strings.ToLower(a[0].(string)) },
		"strings.ToUpper":      func(fr *frame, a []value) value { return strings.ToUpper(a[0].(string)) },
		"strings.TrimSpace":    func(fr *frame, a []value) value { return strings.TrimSpace(a[0].(string)) },
		"strings.Index":        func(fr *frame, a []value) value { return strings.Index(a[0].(string), a[1].(string)) },
		"strings.IndexByte":    func(fr *frame, a []value) value { return strings.IndexByte(a[0].(string), a[1].(byte)) },
		"strings.Join": func(fr *frame, a []value) value {
			var parts []string
			for _, x := range a[0].([]value) {
				parts = append(parts, x.(string))
			}
			return strings.Join(parts, a[1].(string))
		},
		"internal/bytealg.IndexByteString": func(fr *frame, a []value) value { return strings.IndexByte(a[0].(string), a[1].(byte)) },
		"internal/bytealg.IndexString":     func(fr *frame, a []value) value { return strings.Index(a[0].(string), a[1].(string)) },
		"internal/bytealg.CountString": func(fr *frame, a []value) value {
			return strings.Count(a[0].(string), string([]byte{a[1].(byte)}))
		},
		"internal/stringslite.Index":     func(fr *frame, a []value) value { return strings.Index(a[0].(string), a[1].(string)) },
		"internal/stringslite.IndexByte": func(fr *frame, a []value) value { return strings.IndexByte(a[0].(string), a[1].(byte)) },
		"runtime/debug.Stack":            func(fr *frame, a []value) value { return []value{} },
		"runtime.NumGoroutine":           func(fr *frame, a []value) value { return fr.i.sched.live() },
		"runtime.KeepAlive":              func(fr *frame, a []value) value { return nil },

		// ---------------- strings.Builder / bytes.Buffer (contents keyed by address)
		"(*strings.Builder).WriteString": func(fr *frame, a []value) value {
			b := fr.i.builder(a[0])
			*b = append(*b, a[1].(string)...)
			return tuple{len(a[1].(string)), iface{}}
		},
		"(*strings.Builder).Write": func(fr *frame, a []value) value {
			b := fr.i.builder(a[0])
			for _, x := range a[1].([]value) {
				*b = append(*b, x.(byte))
			}
			return tuple{len(a[1].([]value)), iface{}}
		},
		"(*strings.Builder).WriteByte": func(fr *frame, a []value) value {
			b := fr.i.builder(a[0])
			*b = append(*b, a[1].(byte))
			return iface{}
		},
		"(*strings.Builder).WriteRune": func(fr *frame, a []value) value {
			b := fr.i.builder(a[0])
			*b = append(*b, string(a[1].(rune))...)
			return tuple{len(string(a[1].(rune))), iface{}}
		},
		"(*strings.Builder).String": func(fr *frame, a []value) value { return string(*fr.i.builder(a[0])) },
		"(*strings.Builder).Len":    func(fr *frame, a []value) value { return len(*fr.i.builder(a[0])) },
		"(*strings.Builder).Reset":  func(fr *frame, a []value) value { *fr.i.builder(a[0]) = nil; return nil },
		"(*strings.Builder).Grow":   func(fr *frame, a []value) value { return nil },
		"bytes.NewBufferString": func(fr *frame, a []value) value {
			var cell value = structure{}
			p := &cell
			b := fr.i.builder(p)
			*b = append(*b, a[0].(string)...)
			return p
		},
		"(*bytes.Buffer).WriteString": func(fr *frame, a []value) value {
			b := fr.i.builder(a[0])
			*b = append(*b, a[1].(string)...)
			return tuple{len(a[1].(string)), iface{}}
		},
		"(*bytes.Buffer).String": func(fr *frame, a []value) value { return string(*fr.i.builder(a[0])) },

		// ---------------- sync/atomic
		"sync/atomic.LoadInt32":  func(fr *frame, a []value) value { return (*a[0].(*value)).(int32) },
		"sync/atomic.LoadInt64":  func(fr *frame, a []value) value { return (*a[0].(*value)).(int64) },
		"sync/atomic.LoadUint32": func(fr *frame, a []value) value { return (*a[0].(*value)).(uint32) },
		"sync/atomic.LoadUint64": func(fr *frame, a []value) value { return (*a[0].(*value)).(uint64) },
		"sync/atomic.StoreInt32": func(fr *frame, a []value) value { *a[0].(*value) = a[1]; return nil },
		"sync/atomic.StoreInt64": func(fr *frame, a []value) value { *a[0].(*value) = a[1]; return nil },
		"sync/atomic.StoreUint32": func(fr *frame, a []value) value { *a[0].(*value) = a[1]; return nil },
		"sync/atomic.StoreUint64": func(fr *frame, a []value) value { *a[0].(*value) = a[1]; return nil },
		"sync/atomic.CompareAndSwapInt32": func(fr *frame, a []value) value {
			p := a[0].(*value)
			if (*p).(int32) == a[1].(int32) {
				*p = a[2].(int32)
				return true
			}
			return false
		},
		"sync/atomic.CompareAndSwapUint32": func(fr *frame, a []value) value {
			p := a[0].(*value)
			if (*p).(uint32) == a[1].(uint32) {
				*p = a[2].(uint32)
				return true
			}
			return false
		},
		"sync/atomic.CompareAndSwapInt64": func(fr *frame, a []value) value {
			p := a[0].(*value)
			if (*p).(int64) == a[1].(int64) {
				*p = a[2].(int64)
				return true
			}
			return false
		},
		"sync/atomic.StorePointer": func(fr *frame, a []value) value { *a[0].(*value) = a[1]; return nil },
		"sync/atomic.LoadPointer":  func(fr *frame, a []value) value { return *a[0].(*value) },
		"sync/atomic.SwapPointer": func(fr *frame, a []value) value {
			p := a[0].(*value)
			old := *p
			*p = a[1]
			return old
		},
		"sync/atomic.CompareAndSwapPointer": func(fr *frame, a []value) value {
			p := a[0].(*value)
			if (*p).(unsafe.Pointer) == a[1].(unsafe.Pointer) {
				*p = a[2]
				return true
			}
			return false
		},
		"sync/atomic.SwapInt32": func(fr *frame, a []value) value {
			p := a[0].(*value)
			old := *p
			*p = a[1]
			return old
		},
		"sync/atomic.AddUint64": func(fr *frame, a []value) value {
			p := a[0].(*value)
			*p = (*p).(uint64) + a[1].(uint64)
			return *p
		},
		"sync/atomic.AddInt32": func(fr *frame, a []value) value {
			p := a[0].(*value)
			*p = (*p).(int32) + a[1].(int32)
			return *p
		},
		"sync/atomic.AddInt64": func(fr *frame, a []value) value {
			p := a[0].(*value)
			*p = (*p).(int64) + a[1].(int64)
			return *p
		},
		"sync/atomic.AddUint32": func(fr *frame, a []value) value {
			p := a[0].(*value)
			*p = (*p).(uint32) + a[1].(uint32)
			return *p
		},

		// ---------------- sync.Map
		"(*sync.Map).Load": func(fr *frame, a []value) value {
			if m := fr.i.syncMaps[a[0].(*value)]; m != nil {
				if v := m.lookup(a[1]); v != nil {
					return tuple{v, true}
				}
			}
			return tuple{iface{}, false}
		},
		"(*sync.Map).Store": func(fr *frame, a []value) value {
			fr.i.syncMap(a[0].(*value)).insert(a[1], a[2])
			return nil
		},
		"(*sync.Map).LoadOrStore": func(fr *frame, a []value) value {
			m := fr.i.syncMap(a[0].(*value))
			if v := m.lookup(a[1]); v != nil {
				return tuple{v, true}
			}
			m.insert(a[1], a[2])
			return tuple{a[2], false}
		},
		"(*sync.Map).Delete": func(fr *frame, a []value) value {
			if m := fr.i.syncMaps[a[0].(*value)]; m != nil {
				m.delete(a[1])
			}
			return nil
		},
		// maps.clone is implemented in the runtime (go:linkname): a shallow copy
		"maps.clone": func(fr *frame, a []value) value {
			in := a[0].(iface)
			src, _ := in.v.(*hashmap)
			if src == nil {
				return in
			}
			if fr.i.race != nil {
				fr.i.raceMap(fr, src, false, token.NoPos)
			}
			dst := makeMap(src.keyType, 0).(*hashmap)
			for _, e := range src.live() {
				dst.insert(e.key, e.value)
			}
			return iface{t: in.t, v: dst}
		},
		"(*sync.Map).Clear": func(fr *frame, a []value) value {
			delete(fr.i.syncMaps, a[0].(*value))
			return nil
		},
		"(*sync.Map).LoadAndDelete": func(fr *frame, a []value) value {
			if m := fr.i.syncMaps[a[0].(*value)]; m != nil {
				if v := m.lookup(a[1]); v != nil {
					m.delete(a[1])
					return tuple{v, true}
				}
			}
			return tuple{iface{}, false}
		},
		"(*sync.Map).Swap": func(fr *frame, a []value) value {
			m := fr.i.syncMap(a[0].(*value))
			v := m.lookup(a[1])
			m.insert(a[1], a[2])
			if v != nil {
				return tuple{v, true}
			}
			return tuple{iface{}, false}
		},
		"(*sync.Map).Range": func(fr *frame, a []value) value {
			if m := fr.i.syncMaps[a[0].(*value)]; m != nil {
				for _, e := range fr.i.permute(m.live()) {
					if e.deleted {
						continue
					}
					if !call(fr.i, fr, token.NoPos, a[1], []value{e.key, e.value}).(bool) {
						break
					}
				}
			}
			return nil
		},

		// ---------------- web framework contract stubs (C16)
		// http.Error(w, msg, code): "replies to the request with the specified
		// error message and HTTP code": modelled as w.WriteHeader(code) + w.Write(msg).
		"net/http.Error": func(fr *frame, a []value) value {
			w := a[0].(iface)
			if m := fr.i.findMethod(w.t, "WriteHeader"); m != nil {
				call(fr.i, fr, token.NoPos, m, []value{w.v, a[2]})
			}
			if m := fr.i.findMethod(w.t, "Write"); m != nil {
				msg := a[1].(string)
				b := make([]value, len(msg))
				for k := range b {
					b[k] = msg[k]
				}
				call(fr.i, fr, token.NoPos, m, []value{w.v, b})
			}
			return nil
		},
		"github.com/gin-gonic/gin/internal/bytesconv.StringToBytes": func(fr *frame, a []value) value {
			str := a[0].(string)
			b := make([]value, len(str))
			for k := range b {
				b[k] = str[k]
			}
			return b
		},
		"github.com/gin-gonic/gin/internal/bytesconv.BytesToString": func(fr *frame, a []value) value {
			bs := a[0].([]value)
			b := make([]byte, len(bs))
			for k := range bs {
				b[k] = bs[k].(byte)
			}
			return string(b)
		},
		// sync.Pool: Get always builds a fresh object with New; Put drops it
		"(*sync.Pool).Get": func(fr *frame, a []value) value {
			// items put back are handed out again, last in first out (what a single
			// P does natively between collections); an empty pool calls New
			addr := a[0].(*value)
			if items := fr.i.pools[addr]; len(items) > 0 {
				fr.i.acquire(addr)
				it := items[len(items)-1]
				fr.i.pools[addr] = items[:len(items)-1]
				return it
			}
			pool := (*a[0].(*value)).(structure)
			newFn := pool[len(pool)-1]
			if f, ok := newFn.(*ssa.Function); ok && f == nil {
				return iface{}
			}
			return call(fr.i, fr, token.NoPos, newFn, nil)
		},
		"(*sync.Pool).Put": func(fr *frame, a []value) value {
			addr := a[0].(*value)
			if it, ok := a[1].(iface); ok && it.t == nil {
				return nil
			}
			if fr.i.pools == nil {
				fr.i.pools = map[*value][]value{}
			}
			fr.i.pools[addr] = append(fr.i.pools[addr], a[1])
			fr.i.release(addr)
			return nil
		},
		// gin renders JSON bodies through encoding/json + reflection; the body is
		// irrelevant to C16, so: render.WriteJSON(w, obj) writes "{}" to w.
		"github.com/gin-gonic/gin/render.WriteJSON": func(fr *frame, a []value) value {
			w := a[0].(iface)
			if m := fr.i.findMethod(w.t, "Write"); m != nil {
				call(fr.i, fr, token.NoPos, m, []value{w.v, []value{byte('{'), byte('}')}})
			}
			return iface{}
		},
		// echo's default logger (gommon/log) builds a fasttemplate with unsafe
		// tricks; logging is irrelevant to C16: log.New returns a zero Logger.
		"github.com/labstack/gommon/log.New": func(fr *frame, a []value) value {
			pk := fr.i.prog.ImportedPackage("github.com/labstack/gommon/log")
			cell := zero(pk.Type("Logger").Type())
			return &cell
		},
		"github.com/mattn/go-isatty.IsTerminal":       func(fr *frame, a []value) value { return false },
		"github.com/mattn/go-isatty.IsCygwinTerminal": func(fr *frame, a []value) value { return false },
		// echo serialises JSON bodies with encoding/json + reflection; the body is
		// irrelevant to C16: Serialize(c, v, indent) writes "{}" to c.Response().
		"(github.com/labstack/echo/v4.DefaultJSONSerializer).Serialize": func(fr *frame, a []value) value {
			c := a[1].(iface)
			if m := fr.i.findMethod(c.t, "Response"); m != nil {
				resp := call(fr.i, fr, token.NoPos, m, []value{c.v})
				if wm := fr.i.prog.LookupMethod(types.NewPointer(fr.i.prog.ImportedPackage("github.com/labstack/echo/v4").Type("Response").Type()), nil, "Write"); wm != nil {
					call(fr.i, fr, token.NoPos, wm, []value{resp, []value{byte('{'), byte('}')}})
				}
			}
			return iface{}
		},
		"github.com/gofiber/fiber/v2/utils.UnsafeString": bytesToString,
		"github.com/gofiber/fiber/v2/utils.UnsafeBytes":  stringToBytes,
		"github.com/valyala/fasthttp.b2s":                bytesToString,
		"github.com/valyala/fasthttp.s2b":                stringToBytes,
		"sort.Slice":       sortSlice,
		"sort.SliceStable": sortSlice,
		// wall clock: a fixed instant (nothing in the claims depends on time)
		"time.runtimeNano": func(fr *frame, a []value) value { return int64(1) },
		"time.now":         func(fr *frame, a []value) value { return tuple{int64(1700000000), int32(0), int64(1)} },
		"time.runtimeNow":  func(fr *frame, a []value) value { return tuple{int64(1700000000), int32(0), int64(1)} },
		"time.Since": func(fr *frame, a []value) value { return int64(0) },
		// fiber renders JSON through the configured encoder (encoding/json +
		// reflection); the body is irrelevant to C16: Ctx.JSON(v) succeeds.
		"(*github.com/gofiber/fiber/v2.Ctx).JSON": func(fr *frame, a []value) value { return iface{} },
		"os.Getwd": func(fr *frame, a []value) value { return tuple{"/", iface{}} },
		"log/slog.Error": func(fr *frame, a []value) value { return nil },
		"log/slog.Warn":  func(fr *frame, a []value) value { return nil },
		"log/slog.Info":  func(fr *frame, a []value) value { return nil },
		"log/slog.Debug": func(fr *frame, a []value) value { return nil },

		// ---------------- sync.Once / WaitGroup (harness side)
		"(*sync.Once).Do": func(fr *frame, a []value) value {
			// readers: 0 = not started, -2 = running, -1 = done
			m := fr.i.mutex(a[0].(*value))
			switch m.readers {
			case -1:
				fr.i.acquire(m)
				return nil
			case -2:
				if m.writer == fr.i.sched.current {
					panic(vmPathEnd{"deadlock"}) // Do called from within f: deadlocks natively
				}
				fr.i.sched.park(func() bool { return m.readers == -1 }, "sync.Once")
				fr.i.acquire(m)
				return nil
			}
			m.readers = -2
			m.writer = fr.i.sched.current
			defer func() { fr.i.release(m); m.readers = -1; m.writer = nil }()
			call(fr.i, fr, token.NoPos, a[1], nil)
			return nil
		},

		// ---------------- context
		"context.Background": func(fr *frame, a []value) value { return iface{vmCtxType, fr.i.bgCtx()} },
		"context.TODO":       func(fr *frame, a []value) value { return iface{vmCtxType, fr.i.bgCtx()} },
		"context.WithValue": func(fr *frame, a []value) value {
			p := ctxOf(a[0])
			if k, ok := a[1].(iface); !ok || k.t == nil {
				panic(targetStringPanic("nil key"))
			}
			return iface{vmCtxType, &vmCtx{parent: p, key: a[1], val: a[2], hasKey: true, firesAt: -1}}
		},
		"context.WithoutCancel": func(fr *frame, a []value) value {
			return iface{vmCtxType, &vmCtx{parent: ctxOf(a[0]), detached: true, firesAt: -1}}
		},
		"context.WithCancel": func(fr *frame, a []value) value {
			c := newCancelCtx(ctxOf(a[0]))
			return tuple{iface{vmCtxType, c}, cancelFunc(c)}
		},
		"context.WithTimeout": func(fr *frame, a []value) value {
			c := newCancelCtx(ctxOf(a[0]))
			// the deadline fires at a solver-chosen Done()/Err() poll, or never
			if n := fr.i.run.ex.cfg.Params["timeout_polls"]; n > 0 {
				k := fr.i.run.choose(n+1, "timeout")
				if k < n {
					c.firesAt = k
				}
			}
			return tuple{iface{vmCtxType, c}, cancelFunc(c)}
		},
		"context.WithDeadline": func(fr *frame, a []value) value {
			c := newCancelCtx(ctxOf(a[0]))
			return tuple{iface{vmCtxType, c}, cancelFunc(c)}
		},
		"(reflect.vmctx).Done": func(fr *frame, a []value) value {
			c := a[0].(*vmCtx).canceller()
			if c == nil {
				return (*vmchan)(nil)
			}
			c.poll()
			return c.done
		},
		"(reflect.vmctx).Err": func(fr *frame, a []value) value {
			c := a[0].(*vmCtx).canceller()
			if c == nil {
				return iface{}
			}
			c.poll()
			if !c.cancelled {
				return iface{}
			}
			fr.i.acquire(c.done)
			if c.err == "deadline" {
				return fr.i.globalValue("context", "DeadlineExceeded")
			}
			return fr.i.globalValue("context", "Canceled")
		},
		"(reflect.vmctx).Value": func(fr *frame, a []value) value {
			k := a[1].(iface)
			for x := a[0].(*vmCtx); x != nil; x = x.parent {
				if x.hasKey {
					xk := x.key.(iface)
					if sameType(xk.t, k.t) && equalsOrNil(xk.t, xk.v, k.v) {
						return x.val
					}
				}
			}
			return iface{}
		},
		"(reflect.vmctx).Deadline": func(fr *frame, a []value) value {
			tp := fr.i.prog.ImportedPackage("time")
			if tp == nil {
				panic(vmUnsupported("context.Deadline without package time"))
			}
			return tuple{zero(tp.Type("Time").Type()), false}
		},
		"(reflect.vmctx).String": func(fr *frame, a []value) value { return "context" },
	}
	for k, v := range ext {
		if strings.HasPrefix(k, "sync/atomic.") {
			v = atomicSync(k, v)
		}
		if strings.HasPrefix(k, "(*sync.Map).") {
			v = syncMapSync(k, v)
		}
		externals[k] = hit(k, v)
	}
	for _, k := range []string{"(*sync.Mutex).Lock", "(*sync.Mutex).Unlock", "(*sync.RWMutex).Lock", "(*sync.RWMutex).Unlock", "(*sync.RWMutex).RLock", "(*sync.RWMutex).RUnlock"} {
		externals[k] = hit(k, externals[k])
	}
}

// sortSlice: stable insertion sort driven by the program's less function
// (sort.Slice uses reflectlite.Swapper, which the VM does not model).
func sortSlice(fr *frame, a []value) value {
	xs, ok := a[0].(iface).v.([]value)
	if !ok {
		panic(vmUnsupported("sort.Slice on a non-slice"))
	}
	n := len(xs)
	// sort a permutation first: less(i, j) refers to current positions, so
	// apply swaps on the real slice as insertion sort does
	for i := 1; i < n; i++ {
		for j := i; j > 0; j-- {
			if !call(fr.i, fr, token.NoPos, a[1], []value{j, j - 1}).(bool) {
				break
			}
			xs[j], xs[j-1] = xs[j-1], xs[j]
		}
	}
	return nil
}

func bytesToString(fr *frame, a []value) value {
	bs := a[0].([]value)
	b := make([]byte, len(bs))
	for k := range bs {
		b[k] = bs[k].(byte)
	}
	return string(b)
}

func stringToBytes(fr *frame, a []value) value {
	str := a[0].(string)
	b := make([]value, len(str))
	for k := range b {
		b[k] = str[k]
	}
	return b
}

func (c *vmCtx) poll() {
	if c.firesAt >= 0 && !c.cancelled {
		if c.polls >= c.firesAt {
			c.cancel("deadline")
		}
		c.polls++
	}
}

func (i *interpreter) bgCtx() *vmCtx { return &vmCtx{firesAt: -1} }

func newCancelCtx(p *vmCtx) *vmCtx {
	c := &vmCtx{parent: p, cancelCtx: true, done: newChan(0), firesAt: -1}
	if pc := p.canceller(); pc != nil {
		pc.pruneChildren()
		if pc.cancelled {
			c.cancel(pc.err)
		} else {
			pc.children = append(pc.children, c)
		}
	}
	return c
}

func cancelFunc(c *vmCtx) value {
	return &nativeFn{name: "context.cancel", code: uintptr(unsafe.Pointer(c)), ctx: c, f: func(fr *frame, args []value) value {
		fr.i.release(c.done)
		for _, ch := range c.children {
			if ch.done != nil {
				fr.i.release(ch.done)
			}
		}
		c.cancel("canceled")
		if p := c.parent.canceller(); p != nil {
			p.pruneChildren()
		}
		return nil
	}}
}

func (i *interpreter) builder(addr value) *[]byte {
	p := addr.(*value)
	b := i.builders[p]
	if b == nil {
		b = new([]byte)
		i.builders[p] = b
	}
	return b
}

func (i *interpreter) syncMap(addr *value) *hashmap {
	m := i.syncMaps[addr]
	if m == nil {
		m = makeMap(types.NewInterfaceType(nil, nil), 0).(*hashmap)
		i.syncMaps[addr] = m
	}
	return m
}

// IntrinsicNames lists every function the VM does not execute from SSA.
func IntrinsicNames() []string {
	var out []string
	for k := range externals {
		out = append(out, k)
	}
	sort.Strings(out)
	return out
}
