// Copyright 2013 The Go Authors. All rights reserved.
// Use of this source code is governed by a BSD-style
// license that can be found in the LICENSE file.

// Package vm is gosym's symbolic virtual machine for Go SSA. Its concrete core
// is derived from golang.org/x/tools/go/ssa/interp (see LICENSE.xtools);
// additions: symbolic integers/booleans decided by an SMT solver (sym.go),
// exploration by re-execution (explore.go), insertion-ordered maps with a
// symbolic iteration-order scheme (map.go, order.go), a coroutine scheduler
// with VM channels and mutexes (sched.go), and models of reflect / context /
// sync / errors / fmt (reflect.go, intrinsics.go).
package vm

import (
	"fmt"
	"go/token"
	"go/types"
	"log"
	"os"
	"runtime"
	"runtime/debug"
	"slices"
	"strings"

	"golang.org/x/tools/go/ssa"
)

type continuation int

const (
	kNext continuation = iota
	kReturn
	kJump
)

// Mode is a bitmask of options affecting the interpreter.
type Mode uint

const (
	DisableRecover Mode = 1 << iota // Disable recover() in target programs; show interpreter crash instead.
	EnableTracing                   // Print a trace of all instructions as they are interpreted.
)

type methodSet map[string]*ssa.Function

// State of one run (one path) of the VM. The SSA program and everything
// derived from it once lives in the shared *Machine.
type interpreter struct {
	*Machine
	globals map[*ssa.Global]*value // addresses of global variables
	mode    Mode                   // interpreter options
	run     *runState              // exploration state of this run (explore.go)
	sched   *scheduler             // goroutines of this run (sched.go)
	syncMaps map[*value]*hashmap   // sync.Map contents by address
	pools    map[*value][]value    // sync.Pool contents by address
	builders map[*value]*[]byte    // strings.Builder / bytes.Buffer contents by address
	mutexes  map[*value]*vmMutex   // sync.Mutex / RWMutex state by address
	steps   int64
	tracked []value
	race    *raceState
	stackPrinted bool
}

var debugStacks = os.Getenv("GOSYM_DEBUG") != ""

type deferred struct {
	fn    value
	args  []value
	instr *ssa.Defer
	tail  *deferred
}

type frame struct {
	i                *interpreter
	g                *vmG
	depth            int
	caller           *frame
	fn               *ssa.Function
	block, prevBlock *ssa.BasicBlock
	info             *fnInfo
	vals             []value // dynamic values of SSA variables, by fnInfo.index
	locals           []value
	defers           *deferred
	result           value
	panicking        bool
	panic            interface{}
	phitemps         []value // temporaries for parallel phi assignment
}

func (fr *frame) set(key ssa.Value, v value) {
	fr.vals[fr.info.index[key]] = v
}

// fnInfo numbers the SSA values of one function (computed once, shared).
type fnInfo struct {
	index    map[ssa.Value]int
	n        int
	name     string
	ext      externalFn
	noCode   bool
	skipInit bool
	target   bool // belongs to the code under analysis (reported in the evidence)
	syncOp   bool // a call to it from the code under analysis is a G2 scheduling point
	instrs   int
}

func (m *Machine) fnInfoOf(fn *ssa.Function) *fnInfo {
	if fi, ok := m.fnInfos.Load(fn); ok {
		return fi.(*fnInfo)
	}
	fi := &fnInfo{index: map[ssa.Value]int{}}
	add := func(v ssa.Value) {
		if _, ok := fi.index[v]; !ok {
			fi.index[v] = fi.n
			fi.n++
		}
	}
	for _, p := range fn.Params {
		add(p)
	}
	for _, fv := range fn.FreeVars {
		add(fv)
	}
	for _, l := range fn.Locals {
		add(l)
	}
	for _, b := range fn.Blocks {
		for _, in := range b.Instrs {
			if v, ok := in.(ssa.Value); ok {
				add(v)
			}
		}
	}
	fi.name = fn.String()
	for _, b := range fn.Blocks {
		fi.instrs += len(b.Instrs)
	}
	m.mu.Lock()
	k, isFake := m.fakeNames[fn]
	m.mu.Unlock()
	if isFake {
		fi.ext = externals[k]
	} else if fn.Parent() == nil {
		if ext := externals[fi.name]; ext != nil {
			fi.ext = ext
		} else if fn.Blocks == nil {
			fi.noCode = true
		} else if fn.Name() == "init" && fn.Pkg != nil && !m.interpretInit(fn.Pkg) {
			fi.skipInit = true
		}
	}
	pkg := fn.Pkg
	if pkg == nil && fn.Origin() != nil {
		pkg = fn.Origin().Pkg
	}
	if pkg == nil && fn.Parent() != nil {
		pkg = fn.Parent().Pkg
	}
	fi.target = pkg != nil && strings.HasPrefix(pkg.Pkg.Path(), m.TargetPrefix) && !strings.Contains(pkg.Pkg.Path(), "/zzverif")
	fi.syncOp = isSyncOp(fn)
	m.fnInfos.Store(fn, fi)
	return fi
}

func (fr *frame) get(key ssa.Value) value {
	switch key := key.(type) {
	case nil:
		// Hack; simplifies handling of optional attributes
		// such as ssa.Slice.{Low,High}.
		return nil
	case *ssa.Function, *ssa.Builtin:
		return key
	case *ssa.Const:
		return constValue(key)
	case *ssa.Global:
		if r, ok := fr.i.globals[key]; ok {
			return r
		}
		cell := zero(mustDeref(key.Type()))
		fr.i.globals[key] = &cell
		return &cell
	}
	if k, ok := fr.info.index[key]; ok {
		if r := fr.vals[k]; r != nil {
			return r
		}
	}
	panic(fmt.Sprintf("get: no value for %T: %v", key, key.Name()))
}

// runDefer runs a deferred call d.
// It always returns normally, but may set or clear fr.panic.
func (fr *frame) runDefer(d *deferred) {
	if fr.i.mode&EnableTracing != 0 {
		fmt.Fprintf(os.Stderr, "%s: invoking deferred function call\n",
			fr.i.prog.Fset.Position(d.instr.Pos()))
	}
	var ok bool
	defer func() {
		if !ok {
			// Deferred call created a new state of panic.
			p := recover()
			if isVMAbort(p) {
				panic(p)
			}
			fr.panicking = true
			fr.panic = p
		}
	}()
	call(fr.i, fr, d.instr.Pos(), d.fn, d.args)
	ok = true
}

// runDefers executes fr's deferred function calls in LIFO order.
//
// On entry, fr.panicking indicates a state of panic; if
// true, fr.panic contains the panic value.
//
// On completion, if a deferred call started a panic, or if no
// deferred call recovered from a previous state of panic, then
// runDefers itself panics after the last deferred call has run.
//
// If there was no initial state of panic, or it was recovered from,
// runDefers returns normally.
func (fr *frame) runDefers() {
	for d := fr.defers; d != nil; d = d.tail {
		fr.runDefer(d)
	}
	fr.defers = nil
	if fr.panicking {
		panic(fr.panic) // new panic, or still panicking
	}
}

// lookupMethod returns the method set for type typ, which may be one
// of the interpreter's fake types.
func lookupMethod(i *interpreter, typ types.Type, meth *types.Func) *ssa.Function {
	if n, ok := typ.(*types.Named); ok && n.Obj().Pkg() == reflectTypesPackage {
		if f := i.fakeMethod(n, meth.Name()); f != nil {
			return f
		}
		panic(vmUnsupported("method " + meth.Name() + " of VM type " + n.Obj().Name() + " is not modelled"))
	}
	return i.prog.LookupMethod(typ, meth.Pkg(), meth.Name())
}

// visitInstr interprets a single ssa.Instruction within the activation
// record frame.  It returns a continuation value indicating where to
// read the next instruction from.
func visitInstr(fr *frame, instr ssa.Instruction) continuation {
	switch instr := instr.(type) {
	case *ssa.DebugRef:
		// no-op

	case *ssa.UnOp:
		if instr.Op == token.ARROW {
			v, ok := chanRecv(fr, fr.get(instr.X).(*vmchan))
			if !ok {
				v = zero(instr.X.Type().Underlying().(*types.Chan).Elem())
			}
			if instr.CommaOk {
				fr.set(instr, tuple{v, ok})
			} else {
				fr.set(instr, v)
			}
		} else if instr.Op == token.MUL {
			if fr.i.race != nil {
				if a, ok := fr.get(instr.X).(*value); ok {
					fr.i.raceCell(fr, a, false, instr.Pos())
				}
			}
			fr.set(instr, unop(instr, fr.get(instr.X)))
		} else if r, ok := fr.i.run.symUnop(instr.Op, fr.get(instr.X)); ok && instr.Op != token.MUL {
			fr.set(instr, r)
		} else {
			fr.set(instr, unop(instr, fr.get(instr.X)))
		}

	case *ssa.BinOp:
		x, y := fr.get(instr.X), fr.get(instr.Y)
		if r, ok := fr.i.run.symBinop(instr.Op, x, y); ok {
			fr.set(instr, r)
		} else {
			fr.set(instr, binop(instr.Op, instr.X.Type(), x, y))
		}

	case *ssa.Call:
		fn, args := prepareCall(fr, &instr.Call)
		if fr.i.sched.g2budget > 0 && fr.info.target {
			if sf, ok := fn.(*ssa.Function); ok && sf != nil && fr.i.fnInfoOf(sf).syncOp {
				fr.i.sched.syncPoint()
			}
		}
		fr.set(instr, call(fr.i, fr, instr.Pos(), fn, args))

	case *ssa.ChangeInterface:
		fr.set(instr, fr.get(instr.X))

	case *ssa.ChangeType:
		fr.set(instr, fr.get(instr.X)) // (cannot fail)

	case *ssa.Convert:
		x := fr.get(instr.X)
		if sx, ok := x.(symInt); ok {
			if r := fr.i.run.symConv(instr.Type(), sx); r != nil {
				fr.set(instr, r)
				break
			}
			x = fr.i.run.concretize(sx)
		}
		fr.set(instr, conv(instr.Type(), instr.X.Type(), x))

	case *ssa.SliceToArrayPointer:
		fr.set(instr, sliceToArrayPointer(instr.Type(), instr.X.Type(), fr.get(instr.X)))

	case *ssa.MakeInterface:
		fr.set(instr, iface{t: instr.X.Type(), v: fr.get(instr.X)})

	case *ssa.Extract:
		fr.set(instr, fr.get(instr.Tuple).(tuple)[instr.Index])

	case *ssa.Slice:
		fr.set(instr, slice(fr.get(instr.X), fr.i.run.concreteOrNil(fr.get(instr.Low)), fr.i.run.concreteOrNil(fr.get(instr.High)), fr.i.run.concreteOrNil(fr.get(instr.Max))))

	case *ssa.Return:
		switch len(instr.Results) {
		case 0:
		case 1:
			fr.result = fr.get(instr.Results[0])
		default:
			var res []value
			for _, r := range instr.Results {
				res = append(res, fr.get(r))
			}
			fr.result = tuple(res)
		}
		fr.block = nil
		return kReturn

	case *ssa.RunDefers:
		fr.runDefers()

	case *ssa.Panic:
		panic(targetPanic{fr.get(instr.X)})

	case *ssa.Send:
		chanSend(fr, fr.get(instr.Chan).(*vmchan), fr.get(instr.X))

	case *ssa.Store:
		if fr.i.race != nil {
			fr.i.raceCell(fr, fr.get(instr.Addr).(*value), true, instr.Pos())
		}
		store(mustDeref(instr.Addr.Type()), fr.get(instr.Addr).(*value), fr.get(instr.Val))

	case *ssa.If:
		succ := 1
		switch c := fr.get(instr.Cond).(type) {
		case bool:
			if c {
				succ = 0
			}
		case symBool:
			if fr.i.run.decideBranch(c, instr) {
				succ = 0
			}
		default:
			panic(fmt.Sprintf("If: unexpected condition %T", c))
		}
		fr.prevBlock, fr.block = fr.block, fr.block.Succs[succ]
		return kJump

	case *ssa.Jump:
		fr.prevBlock, fr.block = fr.block, fr.block.Succs[0]
		return kJump

	case *ssa.Defer:
		fn, args := prepareCall(fr, &instr.Call)
		defers := &fr.defers
		if into := fr.get(instr.DeferStack); into != nil {
			defers = into.(**deferred)
		}
		*defers = &deferred{
			fn:    fn,
			args:  args,
			instr: instr,
			tail:  *defers,
		}

	case *ssa.Go:
		fn, args := prepareCall(fr, &instr.Call)
		fr.i.sched.spawn(fr, fn, args, fr.i.prog.Fset.Position(instr.Pos()).String())

	case *ssa.MakeChan:
		fr.set(instr, newChan(int(asInt64(fr.get(instr.Size)))))

	case *ssa.Alloc:
		var addr *value
		if instr.Heap {
			// new
			addr = new(value)
			fr.set(instr, addr)
		} else {
			// local
			addr = fr.get(instr).(*value)
		}
		*addr = zero(mustDeref(instr.Type()))

	case *ssa.MakeSlice:
		slice := make([]value, asInt64(fr.i.run.concrete(fr.get(instr.Cap))))
		tElt := instr.Type().Underlying().(*types.Slice).Elem()
		for i := range slice {
			slice[i] = zero(tElt)
		}
		fr.set(instr, slice[:asInt64(fr.i.run.concrete(fr.get(instr.Len)))])

	case *ssa.MakeMap:
		var reserve int64
		if instr.Reserve != nil {
			reserve = asInt64(fr.get(instr.Reserve))
		}
		if !fitsInt(reserve, fr.i.sizes) {
			panic(fmt.Sprintf("ssa.MakeMap.Reserve value %d does not fit in int", reserve))
		}
		fr.set(instr, makeMap(instr.Type().Underlying().(*types.Map).Key(), reserve))

	case *ssa.Range:
		if fr.i.race != nil {
			if m, ok := fr.get(instr.X).(*hashmap); ok {
				fr.i.raceMap(fr, m, false, instr.Pos())
			}
		}
		fr.set(instr, rangeIter(fr.i, fr.get(instr.X), instr.X.Type()))

	case *ssa.Next:
		fr.set(instr, fr.get(instr.Iter).(iter).next())

	case *ssa.FieldAddr:
		fr.set(instr, &(*fr.get(instr.X).(*value)).(structure)[instr.Field])

	case *ssa.Field:
		fr.set(instr, fr.get(instr.X).(structure)[instr.Field])

	case *ssa.IndexAddr:
		x := fr.get(instr.X)
		idx := fr.i.run.concrete(fr.get(instr.Index))
		switch x := x.(type) {
		case []value:
			fr.set(instr, &x[asInt64(idx)])
		case *value: // *array
			fr.set(instr, &(*x).(array)[asInt64(idx)])
		default:
			panic(fmt.Sprintf("unexpected x type in IndexAddr: %T", x))
		}

	case *ssa.Index:
		x := fr.get(instr.X)
		idx := fr.i.run.concrete(fr.get(instr.Index))

		switch x := x.(type) {
		case array:
			fr.set(instr, x[asInt64(idx)])
		case string:
			fr.set(instr, x[asInt64(idx)])
		default:
			panic(fmt.Sprintf("unexpected x type in Index: %T", x))
		}

	case *ssa.Lookup:
		if fr.i.race != nil {
			if m, ok := fr.get(instr.X).(*hashmap); ok {
				fr.i.raceMap(fr, m, false, instr.Pos())
			}
		}
		fr.set(instr, lookup(instr, fr.get(instr.X), fr.i.run.concreteDeep(fr.get(instr.Index))))

	case *ssa.MapUpdate:
		m := fr.get(instr.Map)
		key := fr.i.run.concreteDeep(fr.get(instr.Key))
		v := fr.get(instr.Value)
		switch m := m.(type) {
		case *hashmap:
			if fr.i.race != nil {
				fr.i.raceMap(fr, m, true, instr.Pos())
			}
			m.insert(key, v)
		default:
			panic(fmt.Sprintf("illegal map type: %T", m))
		}

	case *ssa.TypeAssert:
		fr.set(instr, typeAssert(fr.i, instr, fr.get(instr.X).(iface)))

	case *ssa.MakeClosure:
		var bindings []value
		for _, binding := range instr.Bindings {
			bindings = append(bindings, fr.get(binding))
		}
		fr.set(instr, &closure{instr.Fn.(*ssa.Function), bindings})

	case *ssa.Phi:
		log.Fatal("unreachable") // phis are processed at block entry

	case *ssa.Select:
		fr.set(instr, doSelect(fr, instr))

	default:
		panic(fmt.Sprintf("unexpected instruction: %T", instr))
	}

	// if val, ok := instr.(ssa.Value); ok {
	// 	fmt.Println(toString(fr.env[val])) // debugging
	// }

	return kNext
}

// prepareCall determines the function value and argument values for a
// function call in a Call, Go or Defer instruction, performing
// interface method lookup if needed.
func prepareCall(fr *frame, call *ssa.CallCommon) (fn value, args []value) {
	v := fr.get(call.Value)
	if call.Method == nil {
		// Function call.
		fn = v
	} else {
		// Interface method invocation.
		recv := v.(iface)
		if recv.t == nil {
			panic(targetRuntimeError("invalid memory address or nil pointer dereference (method call on nil interface)"))
		}
		if f := lookupMethod(fr.i, recv.t, call.Method); f == nil {
			// Unreachable in well-typed programs.
			panic(fmt.Sprintf("method set for dynamic type %v does not contain %s", recv.t, call.Method))
		} else {
			fn = f
		}
		args = append(args, recv.v)
	}
	for _, arg := range call.Args {
		args = append(args, fr.get(arg))
	}
	return
}

// call interprets a call to a function (function, builtin or closure)
// fn with arguments args, returning its result.
// callpos is the position of the callsite.
func call(i *interpreter, caller *frame, callpos token.Pos, fn value, args []value) value {
	switch fn := fn.(type) {
	case *ssa.Function:
		if fn == nil {
			// nil of func type: in Go a nil pointer dereference of the target
			panic(targetRuntimeError("invalid memory address or nil pointer dereference (call of nil func value)"))
		}
		return callSSA(i, caller, callpos, fn, args, nil)
	case *closure:
		if fn == nil {
			panic(targetRuntimeError("invalid memory address or nil pointer dereference (call of nil func value)"))
		}
		return callSSA(i, caller, callpos, fn.Fn, args, fn.Env)
	case *ssa.Builtin:
		return callBuiltin(caller, callpos, fn, args)
	case *nativeFn:
		fr := &frame{i: i, caller: caller}
		if caller != nil {
			fr.g = caller.g
		}
		return fn.f(fr, args)
	}
	if fn == nil {
		panic(targetRuntimeError("invalid memory address or nil pointer dereference (call of nil func value)"))
	}
	panic(fmt.Sprintf("cannot call %T", fn))
}

func loc(fset *token.FileSet, pos token.Pos) string {
	if pos == token.NoPos {
		return ""
	}
	return " at " + fset.Position(pos).String()
}

// callSSA interprets a call to function fn with arguments args,
// and lexical environment env, returning its result.
// callpos is the position of the callsite.
func callSSA(i *interpreter, caller *frame, callpos token.Pos, fn *ssa.Function, args []value, env []value) value {
	if i.mode&EnableTracing != 0 {
		fset := fn.Prog.Fset
		// TODO(adonovan): fix: loc() lies for external functions.
		fmt.Fprintf(os.Stderr, "Entering %s%s.\n", fn, loc(fset, fn.Pos()))
		suffix := ""
		if caller != nil {
			suffix = ", resuming " + caller.fn.String() + loc(fset, callpos)
		}
		defer fmt.Fprintf(os.Stderr, "Leaving %s%s.\n", fn, suffix)
	}
	fi := i.fnInfoOf(fn)
	fr := &frame{
		i:      i,
		caller: caller, // for panic/recover
		fn:     fn,
		info:   fi,
	}
	if caller != nil {
		fr.g = caller.g
		fr.depth = caller.depth + 1
	} else {
		fr.g = i.sched.current
	}
	if fi.ext != nil {
		return fi.ext(fr, args)
	}
	if fi.noCode {
		panic(vmUnsupported("no code for function: " + fi.name))
	}
	if fi.skipInit {
		return nil
	}
	if fr.depth > i.maxDepth {
		panic(vmLimit{"depth"})
	}
	if fi.target {
		i.run.functionEntered(fi)
	}

	// generic function body?
	if fn.TypeParams().Len() > 0 && len(fn.TypeArgs()) == 0 {
		panic("interp requires ssa.BuilderMode to include InstantiateGenerics to execute generics")
	}

	fr.vals = make([]value, fi.n)
	fr.block = fn.Blocks[0]
	fr.locals = make([]value, len(fn.Locals))
	for i, l := range fn.Locals {
		fr.locals[i] = zero(mustDeref(l.Type()))
		fr.set(l, &fr.locals[i])
	}
	for i, p := range fn.Params {
		fr.set(p, args[i])
	}
	for i, fv := range fn.FreeVars {
		fr.set(fv, env[i])
	}
	for fr.block != nil {
		runFrame(fr)
	}
	// Destroy the locals to avoid accidental use after return.
	for i := range fn.Locals {
		fr.locals[i] = bad{}
	}
	return fr.result
}

// runFrame executes SSA instructions starting at fr.block and
// continuing until a return, a panic, or a recovered panic.
//
// After a panic, runFrame panics.
//
// After a normal return, fr.result contains the result of the call
// and fr.block is nil.
//
// A recovered panic in a function without named return parameters
// (NRPs) becomes a normal return of the zero value of the function's
// result type.
//
// After a recovered panic in a function with NRPs, fr.result is
// undefined and fr.block contains the block at which to resume
// control.
func runFrame(fr *frame) {
	defer func() {
		if fr.block == nil {
			return // normal return
		}
		if fr.i.mode&DisableRecover != 0 {
			return // let interpreter crash
		}
		p := recover()
		if debugStacks && !fr.i.stackPrinted {
			_, isEnd := p.(vmPathEnd)
			if _, isTarget := p.(targetPanic); !isTarget && !isEnd {
				fr.i.stackPrinted = true
				fmt.Fprintf(os.Stderr, "VM PANIC %T %v\n%s\n", p, p, debug.Stack())
				for f := fr; f != nil; f = f.caller {
					fmt.Fprintf(os.Stderr, "   in %s\n", f.fn)
				}
			}
		}
		if isVMAbort(p) {
			panic(p)
		}
		if ps, ok := p.(string); ok {
			// the interpreter core reports its own limits as string panics
			panic(vmUnsupported("vm: " + ps))
		}
		fr.panicking = true
		fr.panic = p
		if fr.i.mode&EnableTracing != 0 {
			fmt.Fprintf(os.Stderr, "Panicking: %T %v.\n", fr.panic, fr.panic)
		}
		fr.runDefers()
		fr.block = fr.fn.Recover
	}()

	for {
		if fr.i.mode&EnableTracing != 0 {
			fmt.Fprintf(os.Stderr, ".%s:\n", fr.block)
		}

		nonPhis := executePhis(fr)
		for _, instr := range nonPhis {
			if fr.i.mode&EnableTracing != 0 {
				if v, ok := instr.(ssa.Value); ok {
					fmt.Fprintln(os.Stderr, "\t", v.Name(), "=", instr)
				} else {
					fmt.Fprintln(os.Stderr, "\t", instr)
				}
			}
			fr.i.steps++
			if fr.i.steps > fr.i.maxSteps {
				panic(vmLimit{"steps"})
			}
			if visitInstr(fr, instr) == kReturn {
				return
			}
			// Inv: kNext (continue) or kJump (last instr)
		}
	}
}

// executePhis executes the phi-nodes at the start of the current
// block and returns the non-phi instructions.
func executePhis(fr *frame) []ssa.Instruction {
	firstNonPhi := -1
	for i, instr := range fr.block.Instrs {
		if _, ok := instr.(*ssa.Phi); !ok {
			firstNonPhi = i
			break
		}
	}
	// Inv: 0 <= firstNonPhi; every block contains a non-phi.

	nonPhis := fr.block.Instrs[firstNonPhi:]
	if firstNonPhi > 0 {
		phis := fr.block.Instrs[:firstNonPhi]
		// Execute parallel assignment of phis.
		//
		// See "the swap problem" in Briggs et al's "Practical Improvements
		// to the Construction and Destruction of SSA Form" for discussion.
		predIndex := slices.Index(fr.block.Preds, fr.prevBlock)
		fr.phitemps = fr.phitemps[:0]
		for _, phi := range phis {
			phi := phi.(*ssa.Phi)
			if fr.i.mode&EnableTracing != 0 {
				fmt.Fprintln(os.Stderr, "\t", phi.Name(), "=", phi)
			}
			fr.phitemps = append(fr.phitemps, fr.get(phi.Edges[predIndex]))
		}
		for i, phi := range phis {
			fr.set(phi.(*ssa.Phi), fr.phitemps[i])
		}
	}
	return nonPhis
}

// doRecover implements the recover() built-in.
func doRecover(caller *frame) value {
	// recover() must be exactly one level beneath the deferred
	// function (two levels beneath the panicking function) to
	// have any effect.  Thus we ignore both "defer recover()" and
	// "defer f() -> g() -> recover()".
	if caller.i.mode&DisableRecover == 0 &&
		caller != nil && !caller.panicking &&
		caller.caller != nil && caller.caller.panicking {
		caller.caller.panicking = false
		p := caller.caller.panic
		caller.caller.panic = nil

		// TODO(adonovan): support runtime.Goexit.
		switch p := p.(type) {
		case targetPanic:
			// The target program explicitly called panic().
			return p.v
		case runtime.Error:
			// The interpreter encountered a runtime error.
			return iface{caller.i.runtimeErrorString, p.Error()}
		case string:
			// The interpreter explicitly called panic().
			return iface{caller.i.runtimeErrorString, p}
		case error:
			return iface{caller.i.runtimeErrorString, p.Error()}
		default:
			return iface{caller.i.runtimeErrorString, fmt.Sprint(p)}
		}
	}
	return iface{}
}

