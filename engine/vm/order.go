package vm

// Map iteration order. Go randomises it; the VM iterates in insertion order
// permuted by the run's order scheme, a solver-enumerated input "order!k".
// Scheme s on a table of n entries: even s = rotate left by s/2, odd s =
// reverse then rotate left by s/2. With K=2n schemes every rotation and
// reflection is covered; for n<=3 that is every permutation.
// The number of schemes K is the bound `order_schemes` (default 2).

func (i *interpreter) permute(ents []*entry) []*entry {
	n := len(ents)
	if n < 2 {
		return ents
	}
	r := i.run
	if r.orderVal < 0 {
		k := r.ex.cfg.Params["order_schemes"]
		if k <= 0 {
			k = 2
		}
		if k == 1 {
			r.orderVal = 0
		} else {
			r.orderVal = r.choose(k, "order")
		}
	}
	s := r.orderVal
	out := make([]*entry, n)
	copy(out, ents)
	if s%2 == 1 {
		for a, b := 0, n-1; a < b; a, b = a+1, b-1 {
			out[a], out[b] = out[b], out[a]
		}
	}
	rot := (s / 2) % n
	if rot > 0 {
		out = append(out[rot:], out[:rot]...)
	}
	return out
}
