package vm

// Happens-before data-race detection on VM memory (vector clocks, FastTrack
// style but unoptimised). Enabled per run by vrt.RaceDetect(true). Only
// accesses performed by functions of the code under analysis are recorded and
// checked; synchronisation is everything the VM models: mutexes, atomics,
// sync.Map, sync.Once, channels (incl. context Done channels), goroutine start,
// goroutine end + vrt.WaitAll. A race is reported for two accesses to one
// memory cell (or one map), at least one of them a write, not ordered by
// happens-before - whatever interleaving the VM happens to run.

import (
	"fmt"
	"go/token"

	"golang.org/x/tools/go/ssa"
)

type vclock []int32

func (v vclock) get(g int) int32 {
	if g < len(v) {
		return v[g]
	}
	return 0
}

func (v *vclock) set(g int, c int32) {
	for len(*v) <= g {
		*v = append(*v, 0)
	}
	(*v)[g] = c
}

func (v *vclock) join(o vclock) {
	for g, c := range o {
		if c > v.get(g) {
			v.set(g, c)
		}
	}
}

func (v vclock) copyOf() vclock { return append(vclock(nil), v...) }

type access struct {
	g     int
	c     int32
	where string
}

type shadow struct {
	w     access
	hasW  bool
	reads []access
}

type raceState struct {
	on      bool
	cells   map[*value]*shadow
	maps    map[*hashmap]*shadow
	clocks  map[interface{}]*vclock // sync objects
	found   bool
}

func (i *interpreter) raceInit() {
	i.race = &raceState{cells: map[*value]*shadow{}, maps: map[*hashmap]*shadow{}, clocks: map[interface{}]*vclock{}}
}

func (g *vmG) tick() { g.vc.set(g.id, g.vc.get(g.id)+1) }

func (i *interpreter) acquire(obj interface{}) {
	if i.race == nil || !i.race.on {
		return
	}
	if c := i.race.clocks[obj]; c != nil {
		i.sched.current.vc.join(*c)
	}
}

func (i *interpreter) release(obj interface{}) {
	if i.race == nil || !i.race.on {
		return
	}
	g := i.sched.current
	c := i.race.clocks[obj]
	if c == nil {
		c = &vclock{}
		i.race.clocks[obj] = c
	}
	c.join(g.vc)
	g.tick()
}

func (fr *frame) where(pos token.Pos) string {
	fn := "?"
	if fr.fn != nil {
		fn = fr.fn.String()
	}
	if pos != token.NoPos {
		p := fr.i.prog.Fset.Position(pos)
		return fmt.Sprintf("%s (%s:%d)", fn, shortFile(p.Filename), p.Line)
	}
	return fn
}

func shortFile(f string) string {
	for k := len(f) - 1; k >= 0; k-- {
		if f[k] == '/' {
			return f[k+1:]
		}
	}
	return f
}

func (i *interpreter) raceAccess(fr *frame, sh *shadow, write bool, pos token.Pos, what string) {
	g := i.sched.current
	me := access{g.id, g.vc.get(g.id), ""}
	report := func(prev access, prevKind string) {
		if i.race.found {
			return
		}
		i.race.found = true
		kind := "read"
		if write {
			kind = "write"
		}
		i.run.fail("C09.data_race", fmt.Sprintf("data race on %s: %s by goroutine %d at %s is not ordered with %s by goroutine %d at %s", what, kind, g.id, fr.where(pos), prevKind, prev.g, prev.where))
	}
	if sh.hasW && sh.w.g != g.id && sh.w.c > g.vc.get(sh.w.g) {
		report(sh.w, "write")
	}
	if write {
		for _, r := range sh.reads {
			if r.g != g.id && r.c > g.vc.get(r.g) {
				report(r, "read")
			}
		}
		me.where = fr.where(pos)
		sh.w, sh.hasW = me, true
		sh.reads = sh.reads[:0]
		return
	}
	me.where = fr.where(pos)
	for k := range sh.reads {
		if sh.reads[k].g == g.id {
			sh.reads[k] = me
			return
		}
	}
	sh.reads = append(sh.reads, me)
}

func (i *interpreter) raceCell(fr *frame, addr *value, write bool, pos token.Pos) {
	if i.race == nil || !i.race.on || fr.info == nil || !fr.info.target || addr == nil {
		return
	}
	sh := i.race.cells[addr]
	if sh == nil {
		sh = &shadow{}
		i.race.cells[addr] = sh
	}
	i.raceAccess(fr, sh, write, pos, "a variable / field")
}

func (i *interpreter) raceMap(fr *frame, m *hashmap, write bool, pos token.Pos) {
	if i.race == nil || !i.race.on || fr.info == nil || !fr.info.target || m == nil {
		return
	}
	sh := i.race.maps[m]
	if sh == nil {
		sh = &shadow{}
		i.race.maps[m] = sh
	}
	i.raceAccess(fr, sh, write, pos, "a map")
}

var _ = ssa.NaiveForm
