module github.com/junioryono/godi/v4/zzverif/http

go 1.24.6

require (
	github.com/junioryono/godi/v4 v4.0.0
	github.com/junioryono/godi/v4/http v0.0.0
	github.com/junioryono/godi/v4/zzverif v0.0.0
)

replace github.com/junioryono/godi/v4 => /repo

replace github.com/junioryono/godi/v4/http => /repo/http

replace github.com/junioryono/godi/v4/zzverif => ../harness
