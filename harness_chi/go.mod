module github.com/junioryono/godi/v4/zzverif/chi

go 1.24.6

require (
	github.com/junioryono/godi/v4 v4.0.0
	github.com/junioryono/godi/v4/chi v0.0.0
	github.com/junioryono/godi/v4/zzverif v0.0.0
	github.com/stretchr/testify v1.11.1
)

require (
	github.com/davecgh/go-spew v1.1.1 // indirect
	github.com/pmezard/go-difflib v1.0.0 // indirect
	gopkg.in/yaml.v3 v3.0.1 // indirect
)

replace github.com/junioryono/godi/v4 => /repo

replace github.com/junioryono/godi/v4/chi => /repo/chi

replace github.com/junioryono/godi/v4/zzverif => ../harness
