package main

import (
	"fmt"
	"os"

	"github.com/junioryono/godi/v4/zzverif/fiber/webh"
	"github.com/junioryono/godi/v4/zzverif/vrt"
)

var harnesses = map[string]func(){
	"webh.H_FiberConc": webh.H_FiberConc,
	"webh.H_Probe": webh.H_Probe,
	"webh.H_Fiber": webh.H_Fiber,
}

func main() {
	if len(os.Args) < 2 || harnesses[os.Args[1]] == nil {
		fmt.Fprintln(os.Stderr, "usage: replay <harness>")
		os.Exit(4)
	}
	vrt.Run(harnesses[os.Args[1]])
}
