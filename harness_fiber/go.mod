module github.com/junioryono/godi/v4/zzverif/fiber

go 1.24.6

require (
	github.com/gofiber/fiber/v2 v2.52.6
	github.com/junioryono/godi/v4 v4.0.0
	github.com/junioryono/godi/v4/fiber v0.0.0
	github.com/junioryono/godi/v4/zzverif v0.0.0
	github.com/stretchr/testify v1.11.1
	github.com/valyala/fasthttp v1.51.0
)

require (
	github.com/andybalholm/brotli v1.1.0 // indirect
	github.com/davecgh/go-spew v1.1.1 // indirect
	github.com/google/uuid v1.6.0 // indirect
	github.com/klauspost/compress v1.17.9 // indirect
	github.com/mattn/go-colorable v0.1.13 // indirect
	github.com/mattn/go-isatty v0.0.20 // indirect
	github.com/mattn/go-runewidth v0.0.16 // indirect
	github.com/pmezard/go-difflib v1.0.0 // indirect
	github.com/rivo/uniseg v0.2.0 // indirect
	github.com/valyala/bytebufferpool v1.0.0 // indirect
	github.com/valyala/tcplisten v1.0.0 // indirect
	golang.org/x/sys v0.28.0 // indirect
	gopkg.in/yaml.v3 v3.0.1 // indirect
)

replace github.com/junioryono/godi/v4 => /repo

replace github.com/junioryono/godi/v4/fiber => /repo/fiber

replace github.com/junioryono/godi/v4/zzverif => ../harness
