package webh

import (
	"github.com/gofiber/fiber/v2"
	"github.com/junioryono/godi/v4/zzverif/vrt"
	"github.com/valyala/fasthttp"
)

// serve runs one request through the app's fasthttp handler the way the
// fasthttp server does: handler, then release of the request's user values
// (fasthttp closes every io.Closer stored as a user value / fiber Local).
func serve(app *fiber.App, path string, setup func(*fasthttp.RequestCtx)) (status int, panicked bool, pv any) {
	fctx := &fasthttp.RequestCtx{}
	fctx.Request.Header.SetMethod("GET")
	fctx.Request.SetRequestURI(path)
	if setup != nil {
		setup(fctx)
	}
	func() {
		defer func() {
			if r := recover(); r != nil {
				panicked, pv = true, r
			}
		}()
		app.Handler()(fctx)
	}()
	status = fctx.Response.StatusCode()
	fctx.ResetUserValues()
	return
}

func H_Probe() {
	app := fiber.New(fiber.Config{DisableStartupMessage: true})
	ran := 0
	app.Use(func(c *fiber.Ctx) error { ran++; return c.Next() })
	app.Get("/x", func(c *fiber.Ctx) error { ran += 10; return c.SendStatus(204) })
	code, panicked, _ := serve(app, "/x", nil)
	vrt.Trace("ran=%d code=%d", ran, code)
	vrt.Assert(ran == 11 && code == 204 && !panicked, "PROBE.ran")
}

func guard(f func()) (panicked bool, val any) {
	defer func() {
		if r := recover(); r != nil {
			panicked, val = true, r
		}
	}()
	f()
	return
}
