#!/bin/sh
# check.sh <property> [quick|thorough] : runs one registered check.
cd "$(dirname "$0")"
unset GOTOOLCHAIN GOSUMDB 2>/dev/null || true
export GOFLAGS=-mod=mod GOPROXY=off
[ -x bin/gosym ] || ./setup.sh >/dev/null
exec ./bin/gosym check "$1" --tier "${2:-quick}"
