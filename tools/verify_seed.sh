#!/bin/bash
# verify_seed.sh <ID> <demo_dir relative to repo root ("." or "internal/graph" or "gin")>
# Confirms in a scratch worktree of /repo HEAD: (1) demo passes without the patch,
# (2) patch applies, existing suite passes, demo fails with it.
set -u
ID=$1; DDIR=${2:-.}
SD=/verif/seeded/$ID
WT=/tmp/sv_$ID
export GOFLAGS=-mod=mod GOPROXY=off
git -C /repo worktree remove --force $WT 2>/dev/null
git -C /repo worktree add -q --detach $WT HEAD || exit 9
cp $SD/demo_test.go $WT/$DDIR/zz_seed_${ID}_test.go
MODDIR=$WT
case $DDIR in gin|echo|fiber|chi|http) MODDIR=$WT/$DDIR;; esac
run_demo() { (cd $WT/$DDIR && go test -vet=off -count=1 -run "TestSeed$ID" . 2>&1 | tail -3); }
echo "--- demo on unpatched HEAD"; run_demo; R1=${PIPESTATUS[0]}
(cd $WT/$DDIR && go test -vet=off -count=1 -run "TestSeed$ID" . >/dev/null 2>&1); D0=$?
if ! git -C $WT apply $SD/patch.diff 2>/tmp/apply_$ID.err; then echo "PATCH DOES NOT APPLY $ID"; cat /tmp/apply_$ID.err; git -C /repo worktree remove --force $WT; exit 8; fi
mv $WT/$DDIR/zz_seed_${ID}_test.go /tmp/zz_seed_${ID}_test.go.aside
(cd $WT && go test -vet=off -count=1 ./... >/tmp/suite_$ID.log 2>&1); S1=$?
S2=0
if [ "$MODDIR" != "$WT" ]; then (cd $MODDIR && go test -vet=off -count=1 ./... >>/tmp/suite_$ID.log 2>&1); S2=$?; fi
mv /tmp/zz_seed_${ID}_test.go.aside $WT/$DDIR/zz_seed_${ID}_test.go
echo "--- demo with patch"; run_demo
(cd $WT/$DDIR && go test -vet=off -count=1 -run "TestSeed$ID" . >/dev/null 2>&1); D1=$?
echo "RESULT $ID demo_unpatched_exit=$D0 suite_exit=$S1/$S2 demo_patched_exit=$D1"
git -C /repo worktree remove --force $WT
