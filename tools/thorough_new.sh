#!/bin/bash
# thorough_new.sh: for `vp run --with-repo`: runs the thorough-tier bounds of the harness configurations
# added in rounds 6-7 on a private copy of the repository and prints one line each (time, paths, failures).
set -u
cd "$(dirname "$0")/.."
R=${VP_RUN_REPO:?needs vp run --with-repo}
for m in harness harness_http harness_chi harness_gin harness_echo harness_fiber; do sed -i "s#=> /repo#=> $R#" $m/go.mod; done
unset GOTOOLCHAIN GOSUMDB 2>/dev/null || true
export GOFLAGS=-mod=mod GOPROXY=off
./setup.sh >/dev/null 2>&1 || { echo "setup failed"; exit 2; }
run() { s=$(date +%s); out=$(timeout ${TO:-3600} ./bin/gosym run "$@" 2>&1 | grep -E "^load|^FAIL|ABORT|^covers" | cut -c1-260 | head -4); echo "== $* ($(( $(date +%s)-s ))s)"; echo "$out"; }
# ran clean on 9024762: run cont.H_ReplacedSibling L=4 order_schemes=2
# ran clean on 9024762: run cont.H_TwoGroups order_schemes=2
# ran clean on 9024762: run cont.H_ScopeChurn L=8 order_schemes=4
# ran clean on 9024762: run cont.H_TypedErrors order_schemes=2
# ran clean on 9024762: run cont.H_EmptyIn order_schemes=2
# ran clean on 9024762: run cont.H_Hist profile=0 n=2 nodes=4 L=1 order_schemes=2 twin=1
# ran clean on 9024762: run cont.H_Hist profile=7 n=3 nodes=4 L=1 order_schemes=2 as2=0
# ran clean on 9024762: run cont.H_Faults order_schemes=2 leaf3=1
# ran clean on 9024762: run cont.H_Build profile=0 n=3 order_schemes=2
# ran clean on 9024762: run graphh.H_C19 N=3 L=2 order_schemes=4 raw_start=1
run cont.H_Order profile=2 n=2 order_schemes=4
run cont.H_KeyedLifetimes order_schemes=4
run cont.H_Builtins order_schemes=2
run cont.H_Conc ops=1 order_schemes=1 worlds=1 vars=3 g2=2 closeerr=1 opset=4
run cont.H_Conc ops=1 order_schemes=1 worlds=2 world_only=1 vars=3 g2=1 yieldclose=0 opset=0
run cont.H_Conc ops=1 order_schemes=1 worlds=1 vars=3 g2=1
run cont.H_Conc ops=1 order_schemes=1 worlds=4 nochild=2 vars=3 cctx=1
run cont.H_SharedCodeConc rounds=2 race=1 g2=1 order_schemes=1
run webh.H_HttpConc -mod=harness_http g2=3 order_schemes=2
run webh.H_FiberConc -mod=harness_fiber g2=3 order_schemes=2
