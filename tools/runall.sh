#!/bin/bash
# runall.sh [tier] [per-check timeout s]: runs every registered check, prints one line each.
cd "$(dirname "$0")/.."
T=${1:-quick}; TO=${2:-3600}
for p in C01 C02 C03 C04 C05 C06 C07 C08 C09 C10 C11 C12 C13 C14 C15 C16 C17 C18 C19 C20; do
  s=$(date +%s)
  timeout $TO ./check.sh $p $T > /tmp/runall_${T}_$p.log 2>&1; rc=$?
  e=$(date +%s)
  echo "$p exit=$rc $((e-s))s $(grep -cE '^KNOWN-FINDING' /tmp/runall_${T}_$p.log) known $(grep -E '^VIOLATION|^INFRA|^UNCONF' /tmp/runall_${T}_$p.log | head -2 | tr '\n' ' ' | cut -c1-160)"
  if [ $rc -eq 124 ]; then pkill -f "bin/gosym check"; pkill z3; fi
done
