#!/bin/bash
# reverify_seed.sh <ID>: re-confirms one seed against /repo HEAD in a scratch worktree:
# demo passes unpatched, patch applies, core suite passes patched, demo fails patched.
ID=$1; P=${ID:0:3}; SD=/verif/seeded/$ID; WT=/tmp/rv_$ID
export GOFLAGS=-mod=mod GOPROXY=off
place=$(head -1 $SD/demo_test.go | grep -oE "at [a-z/]*zz_seed" | sed 's/^at //; s#/\?zz_seed$##')
DDIR=${place:-.}
[ -f $SD/meta.json ] && d=$(python3 -c "import json;print(json.load(open('$SD/meta.json')).get('demo_dir',''))" 2>/dev/null) && [ -n "$d" ] && DDIR=$d
git -C /repo worktree remove --force $WT 2>/dev/null
git -C /repo worktree add -q --detach $WT HEAD || exit 9
cp $SD/demo_test.go $WT/$DDIR/zz_seed_${P}x_test.go
(cd $WT/$DDIR && go test -vet=off -count=1 -run "TestSeed$P" . >/dev/null 2>&1); D0=$?
if ! git -C $WT apply $SD/patch.diff 2>/dev/null; then echo "RESULT $ID PATCH-DOES-NOT-APPLY"; git -C /repo worktree remove --force $WT; exit 8; fi
mv $WT/$DDIR/zz_seed_${P}x_test.go /tmp/rv_$ID.aside
(cd $WT && go test -vet=off -count=1 ./... >/dev/null 2>&1); S1=$?
S2=0
case $DDIR in gin|echo|fiber|chi|http) (cd $WT/$DDIR && go test -vet=off -count=1 ./... >/dev/null 2>&1); S2=$?;; esac
mv /tmp/rv_$ID.aside $WT/$DDIR/zz_seed_${P}x_test.go
(cd $WT/$DDIR && go test -vet=off -count=1 -run "TestSeed$P" . >/dev/null 2>&1); D1=$?
echo "RESULT $ID dir=$DDIR demo_unpatched_exit=$D0 suite_exit=$S1/$S2 demo_patched_exit=$D1"
git -C /repo worktree remove --force $WT
