#!/bin/bash
# run_seed.sh <seed ID> <property> [tier]: applies the seeded change to /repo, runs the check, reverts.
ID=$1; PROP=$2; TIER=${3:-quick}
cd /repo && git apply /verif/seeded/$ID/patch.diff || { echo "cannot apply"; exit 9; }
# the evidence file belongs to runs on the unchanged tree: keep it
cp /verif/evidence/$PROP.json /tmp/evidence_keep_$PROP.json 2>/dev/null
cd /verif && ./check.sh $PROP $TIER > /tmp/seedrun_${ID}_${PROP}.log 2>&1; RC=$?
[ -f /tmp/evidence_keep_$PROP.json ] && mv /tmp/evidence_keep_$PROP.json /verif/evidence/$PROP.json
cd /repo && git checkout -- . && git status --short | head -3
echo "seed $ID vs check $PROP ($TIER): exit=$RC"; grep -E "^VIOLATION|^UNCONFIRMED|^INFRA|^KNOWN" /tmp/seedrun_${ID}_${PROP}.log | head -5
