#!/bin/bash
# sweep_seeds.sh [pattern]: runs every seed under seeded/ (or those matching the pattern) against the
# check of its property (quick tier) and prints one line per seed. Modifies /repo temporarily.
cd /verif
for d in seeded/${1:-C*}/; do
  id=$(basename $d); p=${id:0:3}
  [ -f $d/patch.diff ] || continue
  out=$(tools/run_seed.sh $id $p quick 2>&1)
  rc=$(echo "$out" | grep -oE "exit=[0-9]+" | head -1)
  v=$(echo "$out" | grep -cE "^VIOLATION")
  echo "$id $p $rc violations=$v $(echo "$out" | grep -E '^INFRA|^UNCONF|cannot apply' | head -1 | cut -c1-120)"
done
