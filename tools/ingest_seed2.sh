#!/bin/bash
# ingest_seed2.sh <Cxx> <demo dir>: takes /tmp/w2_<Cxx>/SEED into seeded/<Cxx>b, verifies it, runs the check.
P=$1; DD=${2:-.}; ID=${P}b
mkdir -p /verif/seeded/$ID
cp /tmp/w2_$P/SEED/patch.diff /tmp/w2_$P/SEED/demo_test.go /tmp/w2_$P/SEED/README.md /verif/seeded/$ID/ 2>/dev/null
# the demo's test names use TestSeed<P>; verify_seed greps TestSeed<ID> -> make a variant
sed "s/TestSeed\$ID/TestSeed$P/g" /verif/tools/verify_seed.sh | sed "s#zz_seed_\${ID}_test.go#zz_seed_${P}x_test.go#g" > /tmp/verify_$ID.sh; chmod +x /tmp/verify_$ID.sh
/tmp/verify_$ID.sh $ID $DD 2>&1 | grep -E "RESULT|APPLY"
/verif/tools/run_seed.sh $ID $P quick 2>&1 | tail -2 | cut -c1-220
