#!/bin/bash
# ingest_seed6.sh <Cxx> <demo dir>: copies /tmp/w6_<Cxx>/SEED into seeded/<Cxx>f and verifies it in a scratch worktree
# (demo passes on HEAD; with the patch the suite passes and the demo fails). Does not touch /repo's working tree.
P=$1; DD=${2:-.}; ID=${P}f
mkdir -p /verif/seeded/$ID
cp /tmp/w6_$P/SEED/patch.diff /tmp/w6_$P/SEED/demo_test.go /tmp/w6_$P/SEED/README.md /verif/seeded/$ID/ 2>/dev/null
sed "s/TestSeed\$ID/TestSeed$P/g" /verif/tools/verify_seed.sh | sed "s#zz_seed_\${ID}_test.go#zz_seed_${P}x_test.go#g" > /tmp/verify_$ID.sh; chmod +x /tmp/verify_$ID.sh
/tmp/verify_$ID.sh $ID $DD 2>&1 | grep -E "RESULT|APPLY"
