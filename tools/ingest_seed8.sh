#!/bin/bash
# ingest_seed8.sh <Cxx> [suffix]: copies /tmp/w8_<Cxx>/SEED into seeded/<Cxx><suffix> (default g) and re-verifies it
P=$1; SFX=${2:-g}; ID=${P}${SFX}
mkdir -p /verif/seeded/$ID
cp /tmp/w8_$P/SEED/patch.diff /tmp/w8_$P/SEED/demo_test.go /tmp/w8_$P/SEED/README.md /verif/seeded/$ID/ 2>/dev/null
/verif/tools/reverify_seed.sh $ID
