#!/usr/bin/env python3
"""Regenerates /verif/MANIFEST.json from the table below."""
import json
NOTE = ("Trusted: go/ssa lowering, the gosym VM and its intrinsic models (reflect on go/types, sync, context, errors, fmt), z3 4.8.12, "
        "the reference model inside the harness. Holds only within the bounds recorded in the evidence (registrations, forms, dependency shapes, "
        "history length, scope tree, map-order schemes); nothing is claimed outside them. Findings listed in known_findings.json are carved out by predicates on the symbolic input.")
TECH = ("bounded symbolic execution of godi's go/ssa IR in the gosym VM; every branch on a symbolic input, every value choice, "
        "map-order scheme and schedule choice is decided by z3 (bit-vectors, all-SAT enumeration); counterexamples replayed natively")
CLAIMS = {
 "C01": "Worlds of 2 registrations (every lifetime x identity form incl. As/Name/Group/multi-return/result-object/instance x dependency shapes) are built for real; after L symbolic + 2 exhaustive sweeps of resolutions over provider, scope, child and sibling scope every observed singleton is bound to one model instance (pointer identity through direct, keyed, group and injected observation) and constructor counters equal the model's (exactly 1).",
 "C02": "Same worlds and scope tree: per (scope, scoped registration) one instance, distinct across scopes (root scope included), initializers once per scope, by binding observed objects to model instances; sequential histories only (concurrent resolution is part of C09's harness once built).",
 "C03": "Worlds of up to 3 registrations over every dependency shape incl. the same transient type twice in one constructor: constructor counters of transients equal the model's request-site count after Build, scope creation and the history; all transient instances pairwise distinct (binding).",
 "C04": "Every observed object must come from the registration the model assigns to that identity, with exactly the model's arguments (shape per declared dependency: present / nil optional / group size, and identity of each); unregistered identities must report not-found; ignored and unexported fields untouched. Function-value kinds (closures, method values, MakeFunc) are not yet covered.",
 "C05": "Graph component: every digraph on N identities (3 quick / 4 thorough) incl. self-loops through AddProviderDeferred+DetectCycles and through AddProvider; verdict vs transitive closure, reported path checked edge by edge. Container: worlds of 2-3 registrations with plain/keyed/group/interface/optional edges: Build reports a CircularDependencyError iff the model relation has a cycle and the path is a model cycle; after a successful Build every resolution returns (VM depth bound = non-termination witness).",
 "C06": "Graph component: every DAG on N identities, both insertion paths, 4-6 map-order schemes: TopologicalSort lists each node once, dependencies first. Container: each world is registered and built twice (permuted registration order preserving intra-group order; another map-order scheme): same verdict class, wiring of both isomorphic to the model, every singleton constructed after the singletons it received.",
 "C07": "Worlds of 2-3 registrations, all lifetime assignments x edge forms: Build fails with LifetimeConflictError iff a singleton/transient has a direct model edge to a scoped registration (among worlds without cycle or missing dependency); after a successful Build no instance of a singleton/transient registration reaches (through recorded arguments) an instance produced by a scoped registration.",
 "C08": "Same worlds with any declared dependency possibly unregistered: Build ok implies that no identity resolved from a fresh scope reports service-not-found; no cycle/conflict/missing dependency implies Build ok (missing optional, empty groups, initializers).",
 "C19": "Symbolic start state over 3 identities (types x keys x groups), then L (1 quick, 2 thorough) operations {AddProvider, AddProviderDeferred+DetectCycles, RemoveProvider, Clear, query} with symbolic operands; every exported query of the real graph compared with a reference digraph after each step.",
}
checks = []
for pid in sorted(CLAIMS):
    checks.append({"property_id": pid, "quick_cmd": f"./check.sh {pid} quick", "thorough_cmd": f"./check.sh {pid} thorough",
      "evidence_file": f"evidence/{pid}.json", "replay_cmd_template": f"./bin/gosym replay {pid} {{path}}", "engine": "gosym",
      "level_claimed": {"category": "model_checking", "text": "Bounded symbolic model checking. " + CLAIMS[pid], "design_ref": f"DESIGN.md section 4 {pid}"},
      "level_note": NOTE, "technique": TECH})
props = [json.loads(l)['id'] for l in open('/verif/properties.jsonl')]
NA = {}
na = [{"property_id": p, "reason": NA.get(p, "check not built yet (engine support exists, harness pending in this session)")} for p in props if p not in CLAIMS]
m = {"version": 1, "setup_cmd": "./setup.sh",
 "hooks": {"guard": "verif", "enable": "none needed: harnesses live in a module whose import path is inside godi's (github.com/junioryono/godi/v4/zzverif, replace => /repo) and use exported API only; /repo carries no hooks",
           "baseline_off_cmd": "for m in . chi echo fiber gin http; do (cd /repo/$m && go test -mod=mod -vet=off -count=1 ./...); done", "source_commits": [], "add_only": True},
 "engines": [{"name": "gosym", "path": "engine", "serves_properties": sorted(CLAIMS), "kind_free_text": "symbolic VM for Go SSA (derived from x/tools/go/ssa/interp) + z3 over stdin; exploration by re-execution; native replay"}],
 "checks": checks, "not_applicable": na,
 "notes": "Exit 0 = held on everything explored (KNOWN-FINDING lines for open findings of known_findings.json); 1 = natively reproduced violation; 2 = machinery could not decide (never disguised as 0)."}
json.dump(m, open('/verif/MANIFEST.json', 'w'), indent=1)
print("claimed", sorted(CLAIMS))
