#!/bin/bash
# sweep_snapshot.sh [pattern]: for `vp run --with-repo`: runs every seed against the check of its
# property on a PRIVATE copy of the repository ($VP_RUN_REPO), so that /repo is left alone.
# The harness modules of the snapshot are pointed at that copy.
set -u
cd "$(dirname "$0")/.."
R=${VP_RUN_REPO:?needs vp run --with-repo}
for m in harness harness_http harness_chi harness_gin harness_echo harness_fiber; do
  sed -i "s#=> /repo#=> $R#" $m/go.mod
done
unset GOTOOLCHAIN GOSUMDB 2>/dev/null || true
export GOFLAGS=-mod=mod GOPROXY=off
./setup.sh >/dev/null 2>&1 || { echo "setup failed"; exit 2; }
for d in seeded/${1:-C*}/; do
  id=$(basename $d); p=${id:0:3}
  [ -f $d/patch.diff ] || continue
  git -C $R apply $PWD/$d/patch.diff 2>/dev/null || { echo "$id $p cannot-apply"; continue; }
  s=$(date +%s)
  ./bin/gosym check $p --tier quick > sweep_$id.log 2>&1; rc=$?
  git -C $R checkout -- . ; git -C $R clean -fdq
  echo "$id $p exit=$rc violations=$(grep -cE '^VIOLATION' sweep_$id.log) $(( $(date +%s)-s ))s $(grep -E '^INFRA|^UNCONF' sweep_$id.log | head -1 | cut -c1-120)"
done
