#!/bin/sh
# Builds the gosym engine from the sources in /verif/engine (offline; x/tools
# v0.29.0 from the module cache). Do NOT set GOSUMDB or GOTOOLCHAIN=local: the
# cached go1.24.6 toolchain that /repo/go.mod asks for must remain usable.
set -e
cd "$(dirname "$0")"
mkdir -p bin evidence replays
unset GOTOOLCHAIN GOSUMDB 2>/dev/null || true
export GOFLAGS=-mod=mod GOPROXY=off
(cd engine && go build -o ../bin/gosym ./cmd/gosym)
(cd harness && cp /repo/go.sum go.sum 2>/dev/null || true; go build ./...)
echo "setup ok"
for m in harness_http harness_chi harness_gin harness_echo harness_fiber; do
  (cd $m && go build ./... ) || exit 1
done
echo "web harness modules ok"
# the VM's own regression harnesses (models that were wrong once); a failure means: do not trust the engine
./bin/gosym selftest
