module github.com/junioryono/godi/v4/zzverif/echo

go 1.24.6

require (
	github.com/junioryono/godi/v4 v4.0.0
	github.com/junioryono/godi/v4/echo v0.0.0
	github.com/junioryono/godi/v4/zzverif v0.0.0
	github.com/labstack/echo/v4 v4.13.3
	github.com/stretchr/testify v1.11.1
)

require (
	github.com/davecgh/go-spew v1.1.1 // indirect
	github.com/labstack/gommon v0.4.2 // indirect
	github.com/mattn/go-colorable v0.1.13 // indirect
	github.com/mattn/go-isatty v0.0.20 // indirect
	github.com/pmezard/go-difflib v1.0.0 // indirect
	github.com/valyala/bytebufferpool v1.0.0 // indirect
	github.com/valyala/fasttemplate v1.2.2 // indirect
	golang.org/x/crypto v0.31.0 // indirect
	golang.org/x/net v0.33.0 // indirect
	golang.org/x/sys v0.28.0 // indirect
	golang.org/x/text v0.21.0 // indirect
	gopkg.in/yaml.v3 v3.0.1 // indirect
)

replace github.com/junioryono/godi/v4 => /repo

replace github.com/junioryono/godi/v4/echo => /repo/echo

replace github.com/junioryono/godi/v4/zzverif => ../harness
