package main

import (
	"fmt"
	"os"

	"github.com/junioryono/godi/v4/zzverif/echo/webh"
	"github.com/junioryono/godi/v4/zzverif/vrt"
)

var harnesses = map[string]func(){
	"webh.H_EchoConc": webh.H_EchoConc,
	"webh.H_Probe": webh.H_Probe,
	"webh.H_Echo":  webh.H_Echo,
}

func main() {
	if len(os.Args) < 2 || harnesses[os.Args[1]] == nil {
		fmt.Fprintln(os.Stderr, "usage: replay <harness>")
		os.Exit(4)
	}
	vrt.Run(harnesses[os.Args[1]])
}
