package webh

import (
	nethttp "net/http"
	"net/url"

	"github.com/junioryono/godi/v4/zzverif/vrt"
	"github.com/labstack/echo/v4"
)

type rw struct {
	code int
	hdr  nethttp.Header
}

func (w *rw) Header() nethttp.Header {
	if w.hdr == nil {
		w.hdr = nethttp.Header{}
	}
	return w.hdr
}
func (w *rw) Write(b []byte) (int, error) {
	if w.code == 0 {
		w.code = 200
	}
	return len(b), nil
}
func (w *rw) WriteHeader(c int) {
	if w.code == 0 {
		w.code = c
	}
}

func H_Probe() {
	e := echo.New()
	ran := 0
	e.Use(func(next echo.HandlerFunc) echo.HandlerFunc {
		return func(c echo.Context) error { ran++; return next(c) }
	})
	e.GET("/x", func(c echo.Context) error { ran += 10; return c.NoContent(204) })
	w := &rw{}
	req := &nethttp.Request{Method: "GET", URL: &url.URL{Path: "/x"}, Header: nethttp.Header{}}
	e.ServeHTTP(w, req)
	vrt.Trace("ran=%d code=%d", ran, w.code)
	vrt.Assert(ran == 11 && w.code == 204, "PROBE.ran")
}
