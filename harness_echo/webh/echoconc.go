package webh

import (
	"context"
	"errors"
	nethttp "net/http"
	"net/url"

	"github.com/junioryono/godi/v4"
	godiecho "github.com/junioryono/godi/v4/echo"
	"github.com/junioryono/godi/v4/zzverif/kit"
	"github.com/junioryono/godi/v4/zzverif/vrt"
	"github.com/labstack/echo/v4"
)

// H_EchoConc: two requests in flight at once through one middleware instance;
// the handler yields between two uses of its scope, so the VM explores every
// interleaving of the two requests at handler granularity.
func H_EchoConc() {
	c := godi.NewCollection()
	c.AddScoped(kit.TabC[1][0])
	p, err := c.Build()
	vrt.Assume(err == nil)
	type seen struct {
		scope    godi.Scope
		first    *kit.Inst
		second   *kit.Inst
		err1     error
		err2     error
		panicked bool
	}
	var res [2]seen
	engine := echo.New()
	engine.Use(godiecho.ScopeMiddleware(p))
	engine.GET("/x", func(ec echo.Context) error {
		id := ec.Request().Context().Value("req").(int)
		s, err := godi.FromContext(ec.Request().Context())
		if err != nil {
			res[id].err1 = err
			return nil
		}
		res[id].scope = s
		v, e := s.Get(kit.TypeS[1])
		res[id].err1 = e
		res[id].first = kit.InfoOf(v)
		vrt.Yield()
		v2, e2 := s.Get(kit.TypeS[1])
		res[id].err2 = e2
		res[id].second = kit.InfoOf(v2)
		return ec.NoContent(200)
	})
	serve := func(id int) {
		req := (&nethttp.Request{Method: "GET", URL: &url.URL{Path: "/x"}, Header: nethttp.Header{}}).WithContext(context.WithValue(context.Background(), "req", id))
		res[id].panicked, _ = guard(func() { engine.ServeHTTP(&rw{}, req) })
	}
	vrt.RaceDetect(true)
	// G2: up to g2 involuntary switches in front of the container's own lock / atomic / sync.Map operations
	vrt.G2(vrt.Param("g2", 0))
	vrt.Go("req0", func() { serve(0) })
	vrt.Go("req1", func() { serve(1) })
	vrt.WaitAll()
	vrt.G2(0)
	vrt.Cover("both_served")
	for id := 0; id < 2; id++ {
		r := res[id]
		vrt.Assert(!r.panicked, "C16.concurrent_panic", "request", id, "panicked")
		vrt.Assert(r.err1 == nil && r.err2 == nil, "C16.concurrent_scope_closed_early", "request", id, "lost its scope while its handler was running:", r.err1, r.err2)
		vrt.Assert(r.first != nil && r.first == r.second, "C16.concurrent_instance_changed", "request", id, "saw two different scoped instances")
		if r.scope != nil {
			_, e := r.scope.Get(kit.TypeS[1])
			vrt.Assert(errors.Is(e, godi.ErrScopeDisposed), "C16.scope_not_closed", "scope of request", id, "still open after the request ended")
		}
		if r.first != nil {
			vrt.Assert(r.first.Closed == 1, "C16.instance_close_count", "scoped instance of request", id, "has close count", r.first.Closed)
		}
	}
	vrt.Assert(res[0].scope != res[1].scope || res[0].scope == nil, "C16.scope_reused", "concurrent requests shared a scope")
	vrt.Assert(res[0].first != res[1].first || res[0].first == nil, "C16.instance_shared", "concurrent requests shared a scoped instance")
	p.Close()
	vrt.Quiesce()
}
