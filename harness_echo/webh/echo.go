// Package webh: C16 harness for the echo integration. godi's middleware and
// Handle closures run inside a REAL echo instance (router, middleware chain,
// HTTP error handler) in the VM as well as natively; only JSON serialisation
// of error bodies, the default logger and terminal detection are stubs in the VM.
package webh

import (
	"context"
	"errors"
	nethttp "net/http"
	"net/url"

	"github.com/junioryono/godi/v4"
	godiecho "github.com/junioryono/godi/v4/echo"
	"github.com/junioryono/godi/v4/zzverif/kit"
	"github.com/junioryono/godi/v4/zzverif/vrt"
	"github.com/labstack/echo/v4"
)

var errMw = errors.New("middleware failed")

func guard(f func()) (panicked bool, val any) {
	defer func() {
		if r := recover(); r != nil {
			panicked, val = true, r
		}
	}()
	f()
	return
}

type reqLog struct {
	mwScopes      []godi.Scope
	mwRan         []int
	handlerRan    int
	handlerScope  godi.Scope
	methodRan     int
	methodCtrl    *kit.S0
	errHandler    int
	errHandlerErr error
	scopeErrH     int
	resErrH       int
	panicH        int
	closeErrH     int
	openInHandler bool
}

// H_Echo: one configuration of ScopeMiddleware + Handle, two sequential requests.
func H_Echo() {
	nmw := vrt.Pick("nmw", 0, 2)
	failAt := vrt.Pick("fail", -1, nmw-1) // index of the failing middleware
	customErr := vrt.Pick("customErr", 0, 1) == 1
	outcome := vrt.Pick("outcome", 0, 2)        // 0 ok, 1 handler panics, 2 handler returns an error
	useHandle := vrt.Pick("handle", 0, 1) == 1  // the handler is godihttp.Handle(...)
	ctrlReg := vrt.Pick("ctrl", 0, 1) == 1      // controller registered
	recovery := vrt.Pick("recovery", 0, 1) == 1 // Handle's PanicRecovery
	creation := vrt.Pick("creation", 0, 2)      // 0 ok, 1 provider closed, 2 scope initializer fails on the 2nd request
	withScopeMw := vrt.Pick("scopemw", 0, 1) == 1 || !useHandle
	vrt.Assume(useHandle || (ctrlReg && !recovery))
	// the scope is closed under the handler's feet: the last configured
	// middleware closes it (as a cancelled request context or a shutdown would)
	mwCloses := vrt.Pick("mwcloses", 0, 1) == 1
	vrt.Assume(!mwCloses || (nmw >= 1 && failAt < 0 && useHandle && ctrlReg && withScopeMw && creation == 0 && outcome == 0))

	c := godi.NewCollection()
	// controller: scoped, disposable, receives (Scope, Provider, Context)
	if ctrlReg {
		c.AddScoped(kit.TabC[0][21])
	}
	c.AddScoped(kit.TabC[1][0]) // another scoped disposable service resolved by middlewares
	if creation == 2 {
		c.AddScoped(kit.TabE[3][0]) // initializer; fails when told to
	}
	p, err := c.Build()
	vrt.Assume(err == nil)
	if creation == 1 {
		p.Close()
	}

	var lg *reqLog
	var opts []godiecho.Option
	for i := 0; i < nmw; i++ {
		i := i
		opts = append(opts, godiecho.WithMiddleware(func(s godi.Scope, ec echo.Context) error {
			lg.mwRan = append(lg.mwRan, i)
			lg.mwScopes = append(lg.mwScopes, s)
			s.Get(kit.TypeS[1])
			if i == failAt {
				return errMw
			}
			if mwCloses && i == nmw-1 {
				s.Close()
			}
			return nil
		}))
	}
	if customErr {
		opts = append(opts, godiecho.WithErrorHandler(func(ec echo.Context, err error) error {
			lg.errHandler++
			lg.errHandlerErr = err
			return ec.NoContent(599)
		}))
	}
	opts = append(opts, godiecho.WithCloseErrorHandler(func(error) { lg.closeErrH++ }))

	method := func(ctrl *kit.S0, ec echo.Context) error {
		lg.methodRan++
		lg.methodCtrl = ctrl
		s, err := godi.FromContext(ec.Request().Context())
		if err == nil {
			lg.handlerScope = s
			_, e := s.Get(kit.TypeS[1])
			lg.openInHandler = e == nil
		}
		if outcome == 1 {
			panic("handler panic")
		}
		if outcome == 2 {
			return errMw
		}
		return ec.NoContent(200)
	}
	var final echo.HandlerFunc
	if useHandle {
		final = godiecho.Handle(method,
			godiecho.WithPanicRecovery(recovery),
			godiecho.WithPanicHandler(func(ec echo.Context, v any) error { lg.panicH++; return ec.NoContent(598) }),
			godiecho.WithScopeErrorHandler(func(ec echo.Context, err error) error { lg.scopeErrH++; return ec.NoContent(597) }),
			godiecho.WithResolutionErrorHandler(func(ec echo.Context, err error) error { lg.resErrH++; return ec.NoContent(596) }),
		)
	} else {
		final = func(ec echo.Context) error {
			lg.handlerRan++
			s, err := godi.FromContext(ec.Request().Context())
			if err == nil {
				lg.handlerScope = s
				_, e := s.Get(kit.TypeS[1])
				lg.openInHandler = e == nil
			}
			if outcome == 1 {
				panic("handler panic")
			}
			if outcome == 2 {
				return errMw
			}
			return ec.NoContent(200)
		}
	}
	e := echo.New()
	if withScopeMw {
		e.Use(godiecho.ScopeMiddleware(p, opts...))
	}
	e.GET("/x", final)
	h := nethttp.Handler(e)

	// a second middleware instance, configured AFTER the one that serves the
	// requests and never used: instances must not share configuration state
	decoyRan := 0
	if vrt.Pick("twoinst", 0, 1) == 1 {
		var dopts []godiecho.Option
		for k := 0; k < 2; k++ {
			dopts = append(dopts, godiecho.WithMiddleware(func(s godi.Scope, ec echo.Context) error { decoyRan++; return nil }))
		}
		_ = godiecho.ScopeMiddleware(p, dopts...)
	}
	vrt.Quiesce()
	baseG := vrt.Goroutines()
	var seenScopes []godi.Scope
	var seenS1 []*kit.Inst
	for reqNo := 0; reqNo < 2; reqNo++ {
		lg = &reqLog{}
		if creation == 2 && reqNo == 1 {
			kit.FaultSlot, kit.FaultNth, kit.FaultKind = 3, kit.Calls[kit.KindVoidErr][3]+1, kit.FaultError
		}
		logBefore := len(kit.Log)
		w := &rw{}
		req := (&nethttp.Request{Method: "GET", URL: &url.URL{Path: "/x"}, Header: nethttp.Header{}}).WithContext(context.WithValue(context.Background(), reqNo, "req"))
		panicked, _ := guard(func() { h.ServeHTTP(w, req) })
		vrt.Cover("request_done")
		vrt.Trace("req=%d code=%d panicked=%v mw=%d handler=%d method=%d errH=%d", reqNo, w.code, panicked, len(lg.mwRan), lg.handlerRan, lg.methodRan, lg.errHandler)

		creationFails := withScopeMw && (creation == 1 || (creation == 2 && reqNo == 1))
		mwFails := withScopeMw && !creationFails && failAt >= 0
		reachesHandler := !creationFails && !mwFails
		// middlewares: in configuration order, up to and including the failing one
		if withScopeMw && !creationFails {
			wantRan := nmw
			if failAt >= 0 {
				wantRan = failAt + 1
			}
			ok := len(lg.mwRan) == wantRan
			for i := 0; ok && i < wantRan; i++ {
				ok = lg.mwRan[i] == i
			}
			vrt.Assert(ok, "C16.middleware_order", "middlewares ran", lg.mwRan, "want the first", wantRan, "in order")
			for _, s := range lg.mwScopes {
				vrt.Assert(s == lg.mwScopes[0], "C16.middlewares_see_different_scopes")
			}
		} else {
			vrt.Assert(len(lg.mwRan) == 0, "C16.middleware_ran_without_scope", "middlewares ran although no scope was created")
		}
		// error handler instead of handler
		if creationFails || mwFails {
			vrt.Assert(lg.handlerRan == 0 && lg.methodRan == 0, "C16.handler_ran_after_failure", "handler ran although scope creation or a middleware failed")
			if customErr {
				vrt.Assert(lg.errHandler == 1, "C16.error_handler_calls", "error handler ran", lg.errHandler, "times")
				if mwFails {
					vrt.Assert(errors.Is(lg.errHandlerErr, errMw), "C16.error_handler_cause", "error handler did not receive the middleware's error")
				}
			} else {
				vrt.Assert(w.code == 500, "C16.default_error_status", "default error handler produced status", w.code)
			}
			vrt.Assert(!panicked, "C16.failure_panicked")
		} else {
			vrt.Assert(lg.errHandler == 0, "C16.error_handler_without_error", "error handler ran on a healthy request")
		}
		// the handler / Handle
		if reachesHandler {
			if useHandle {
				switch {
				case !withScopeMw:
					vrt.Assert(lg.scopeErrH == 1 && lg.methodRan == 0 && lg.resErrH == 0, "C16.handle_without_scope", "Handle without a scope in the context: scopeErr", lg.scopeErrH, "method", lg.methodRan, "resErr", lg.resErrH)
				case mwCloses:
					vrt.Cover("closed_before_handle")
					vrt.Assert(lg.methodRan == 0, "C16.handle_method_without_controller", "the controller method ran although the controller could not be resolved (scope already closed)")
					vrt.Assert(lg.scopeErrH+lg.resErrH == 1, "C16.handle_error_handlers", "scope already closed: scope-error handler ran", lg.scopeErrH, "times, resolution-error handler", lg.resErrH, "times; want exactly one of them once")
				case !ctrlReg:
					vrt.Assert(lg.resErrH == 1 && lg.methodRan == 0 && lg.scopeErrH == 0, "C16.handle_unresolvable", "Handle with an unregistered controller: resErr", lg.resErrH, "method", lg.methodRan)
				default:
					vrt.Assert(lg.methodRan == 1 && lg.resErrH == 0 && lg.scopeErrH == 0, "C16.handle_method_calls", "controller method ran", lg.methodRan, "times")
					in := kit.InfoOf(lg.methodCtrl)
					vrt.Assert(in != nil && in.HasScope && in.Scope == lg.handlerScope, "C16.controller_scope", "the controller was not resolved from the request's scope")
					if outcome == 1 {
						vrt.Assert(panicked == !recovery, "C16.panic_swallowing", "handler panicked; recovery =", recovery, "panic escaped =", panicked)
						vrt.Assert((lg.panicH == 1) == recovery, "C16.panic_handler_calls", "panic handler ran", lg.panicH, "times; recovery =", recovery)
					}
				}
			} else {
				vrt.Assert(lg.handlerRan == 1, "C16.handler_calls", "handler ran", lg.handlerRan, "times")
				if outcome == 1 {
					vrt.Assert(panicked, "C16.panic_swallowing", "a panic of a plain handler was swallowed by the scope middleware")
				}
			}
			if withScopeMw && (lg.handlerRan+lg.methodRan) > 0 && !mwCloses {
				vrt.Assert(lg.handlerScope != nil && lg.openInHandler, "C16.scope_not_visible", "handler did not find an open scope in the request context")
				if len(lg.mwScopes) > 0 {
					vrt.Assert(lg.mwScopes[0] == lg.handlerScope, "C16.scope_differs", "middlewares and handler saw different scopes")
				}
			}
		}
		if outcome == 0 || !reachesHandler {
			vrt.Assert(!panicked || (useHandle && !recovery && outcome == 1), "C16.unexpected_panic")
		}
		// exactly one scope, closed exactly once, on every exit path
		var sc godi.Scope
		if len(lg.mwScopes) > 0 {
			sc = lg.mwScopes[0]
		} else if lg.handlerScope != nil {
			sc = lg.handlerScope
		}
		if sc != nil {
			_, e := sc.Get(kit.TypeS[1])
			vrt.Assert(errors.Is(e, godi.ErrScopeDisposed), "C16.scope_not_closed", "the request's scope is still open after the request ended")
			// C14 at the level of the request cycle: nothing of the request stays behind
			vrt.Assert(errors.Is(e, godi.ErrScopeDisposed), "C14.request_scope_left_open", "the request ended (on whatever path) but its scope was never closed")
			vrt.Assert(sc.Context().Err() != nil, "C14.request_scope_context_live", "the request ended but the context of its scope is not cancelled")
			for _, prev := range seenScopes {
				vrt.Assert(prev != sc, "C16.scope_reused", "two requests shared a scope")
			}
			seenScopes = append(seenScopes, sc)
		}
		for _, in := range kit.Log[logBefore:] {
			if in.Aux || !kit.Disposable[in.Slot] {
				continue
			}
			vrt.Assert(in.Closed == 1, "C16.instance_close_count", "scoped instance of slot", in.Slot, "created by the request has close count", in.Closed)
			if in.Slot == 1 {
				for _, prev := range seenS1 {
					vrt.Assert(prev != in, "C16.instance_shared", "two requests shared a scoped instance")
				}
				seenS1 = append(seenS1, in)
			}
		}
		vrt.Assert(lg.closeErrH == 0, "C16.close_error", "closing the request scope reported an error")
		vrt.Assert(decoyRan == 0, "C16.foreign_middleware_ran", "a middleware configured for another ScopeMiddleware instance ran", decoyRan, "times")
		vrt.Quiesce()
		vrt.Assert(vrt.Goroutines() == baseG, "C14.request_goroutine_left", "goroutines after the request:", vrt.Goroutines(), "before the first request:", baseG)
	}
	p.Close()
	vrt.Quiesce()
}
