module github.com/junioryono/godi/v4/zzverif/gin

go 1.24.6

require (
	github.com/gin-gonic/gin v1.10.0
	github.com/junioryono/godi/v4 v4.0.0
	github.com/junioryono/godi/v4/gin v0.0.0
	github.com/junioryono/godi/v4/zzverif v0.0.0
	github.com/stretchr/testify v1.11.1
)

require (
	github.com/bytedance/sonic v1.11.6 // indirect
	github.com/bytedance/sonic/loader v0.1.1 // indirect
	github.com/cloudwego/base64x v0.1.4 // indirect
	github.com/cloudwego/iasm v0.2.0 // indirect
	github.com/davecgh/go-spew v1.1.1 // indirect
	github.com/gabriel-vasile/mimetype v1.4.3 // indirect
	github.com/gin-contrib/sse v0.1.0 // indirect
	github.com/go-playground/locales v0.14.1 // indirect
	github.com/go-playground/universal-translator v0.18.1 // indirect
	github.com/go-playground/validator/v10 v10.20.0 // indirect
	github.com/goccy/go-json v0.10.2 // indirect
	github.com/json-iterator/go v1.1.12 // indirect
	github.com/klauspost/cpuid/v2 v2.2.7 // indirect
	github.com/leodido/go-urn v1.4.0 // indirect
	github.com/mattn/go-isatty v0.0.20 // indirect
	github.com/modern-go/concurrent v0.0.0-20180306012644-bacd9c7ef1dd // indirect
	github.com/modern-go/reflect2 v1.0.2 // indirect
	github.com/pelletier/go-toml/v2 v2.2.2 // indirect
	github.com/pmezard/go-difflib v1.0.0 // indirect
	github.com/twitchyliquid64/golang-asm v0.15.1 // indirect
	github.com/ugorji/go/codec v1.2.12 // indirect
	golang.org/x/arch v0.8.0 // indirect
	golang.org/x/crypto v0.23.0 // indirect
	golang.org/x/net v0.25.0 // indirect
	golang.org/x/sys v0.20.0 // indirect
	golang.org/x/text v0.15.0 // indirect
	google.golang.org/protobuf v1.34.1 // indirect
	gopkg.in/yaml.v3 v3.0.1 // indirect
)

replace github.com/junioryono/godi/v4 => /repo

replace github.com/junioryono/godi/v4/gin => /repo/gin

replace github.com/junioryono/godi/v4/zzverif => ../harness
