package webh

import (
	nethttp "net/http"
	"net/url"

	"github.com/gin-gonic/gin"
	"github.com/junioryono/godi/v4/zzverif/vrt"
)

func H_Probe() {
	gin.SetMode(gin.TestMode)
	g := gin.New()
	ran := 0
	g.Use(func(c *gin.Context) { ran++; c.Next() })
	g.GET("/", func(c *gin.Context) { ran += 10; c.Status(204) })
	w := &rw{}
	req := &nethttp.Request{Method: "GET", URL: &url.URL{Path: "/"}, Header: nethttp.Header{}}
	g.ServeHTTP(w, req)
	vrt.Trace("ran=%d code=%d", ran, w.code)
	vrt.Assert(ran == 11, "PROBE.ran")
}
