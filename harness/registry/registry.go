// Package registry names every harness entry point.
package registry

import (
	"github.com/junioryono/godi/v4/zzverif/cont"
	"github.com/junioryono/godi/v4/zzverif/graphh"
	"github.com/junioryono/godi/v4/zzverif/smoke"
)

var Harnesses = map[string]func(){
	"graphh.H_C05a_Deferred":  graphh.H_C05a_Deferred,
	"graphh.H_C05a_Immediate": graphh.H_C05a_Immediate,
	"graphh.H_C06a_Topo":      graphh.H_C06a_Topo,
	"graphh.H_C19":            graphh.H_C19,
	"smoke.H_Smoke":           smoke.H_Smoke,
	"cont.H_Hist":             cont.H_Hist,
	"cont.H_Build":            cont.H_Build,
	"cont.H_Order":            cont.H_Order,
	"cont.H_Dispose":          cont.H_Dispose,
	"cont.H_Closed":           cont.H_Closed,
	"cont.H_Conc":             cont.H_Conc,
	"cont.H_Release":          cont.H_Release,
	"cont.H_Misuse":           cont.H_Misuse,
	"cont.H_Registry":         cont.H_Registry,
	"cont.H_ValueDisposables": cont.H_ValueDisposables,
	"cont.H_FuncKinds":        cont.H_FuncKinds,
	"cont.H_Modules":          cont.H_Modules,
	"cont.H_Builtins":         cont.H_Builtins,
	"cont.H_Reserved":         cont.H_Reserved,
	"cont.H_Faults":           cont.H_Faults,
	"cont.H_OptionalFault":    cont.H_OptionalFault,
	"cont.H_KeyedLifetimes":   cont.H_KeyedLifetimes,
	"cont.H_SharedCodeConc":   cont.H_SharedCodeConc,
	"cont.H_Rebuild":          cont.H_Rebuild,
	"cont.H_Instances":        cont.H_Instances,
	"cont.H_ReplacedSibling":  cont.H_ReplacedSibling,
	"cont.H_TwoGroups":        cont.H_TwoGroups,
	"cont.H_AuxCycle":         cont.H_AuxCycle,
	"cont.H_RejectedKeyGroup": cont.H_RejectedKeyGroup,
	"cont.H_EmptyIn":          cont.H_EmptyIn,
	"cont.H_TypedErrors":      cont.H_TypedErrors,
	"cont.H_ScopeChurn":       cont.H_ScopeChurn,
	"smoke.H_Clone":           smoke.H_Clone,
	"cont.H_ReleaseChild":     cont.H_ReleaseChild,
	"cont.H_CloseInCallback":  cont.H_CloseInCallback,
}
