// Package kit is the shared catalogue for the container harnesses: service
// types S0..S3 (+ auxiliary outputs A0..A3), generated constructors for every
// dependency shape (gen.go), instrumentation (who constructed what from which
// arguments, close counters, global sequence stamps), a fault plan, and the
// reference model (model.go).
package kit

import (
	"context"
	"errors"
	"fmt"
	"reflect"

	"github.com/junioryono/godi/v4"

	"github.com/junioryono/godi/v4/zzverif/vrt"
)

// Kinds of generated constructors.
const (
	KindCtor    = iota // func(deps) (*S, error)
	KindPlain          // func(deps) *S
	KindMulti          // func(deps) (*S, *A, error)
	KindResObj         // func(deps) (Out{P *S; Q *A `name:"k1"`}, error)
	KindVoid           // func(deps)
	KindVoidErr        // func(deps) error
	KindInstance       // registered value
)

// Inst is the record of one object created by a harness constructor.
type Inst struct {
	ID      int // index in Log
	Seq     int // global stamp at construction completion
	Slot    int
	Variant int
	Kind    int
	Aux     bool
	Primary *Inst // for Aux: the S it was created with

	Args     []*Inst // every instance received, in declaration order (groups flattened)
	ArgCount []int   // per declared dependency: number of instances (-1: nil / zero value)

	// built-in injectables received
	Ctx      context.Context
	Scope    godi.Scope
	Prov     godi.Provider
	HasCtx   bool
	HasScope bool
	HasProv  bool

	Handle int // vrt.Track handle of the service object

	Closed    int
	CloseSeq  []int
	CloseErr  bool     // Close() returns an error
	CloseCtx  []string // names of the container Close calls active at each Close
}

type Base struct{ inst *Inst }

func (b *Base) Info() *Inst {
	if b == nil {
		return nil
	}
	return b.inst
}

type I0 interface{ Info() *Inst }
type I1 interface {
	I0
	IsI1()
}

// Event is one entry of the global event log.
type Event struct {
	Seq  int
	What string // "ctor" | "close" | "void"
	Inst *Inst
	Slot int
}

var (
	Seq    int
	Log    []*Inst
	Events []Event
	// Calls[kind][slot] counts constructor invocations (including failing ones).
	Calls [7][NS]int
	// Done[kind][slot] counts invocations that returned successfully.
	Done [7][NS]int

	ErrBoom  = errors.New("kit: injected constructor error")
	// ErrWrapped is what a constructor returns under FaultWrapped: its own
	// fmt.Errorf value around ErrBoom - both must stay reachable with errors.Is
	ErrWrapped = fmt.Errorf("kit: constructor context: %w", ErrBoom)
	ErrClose = errors.New("kit: injected close error")
	PanicVal = "kit: injected panic"

	// Fault plan: the FaultNth-th invocation (1-based, counted per slot over all
	// kinds) of slot FaultSlot fails with FaultKind.
	FaultSlot = -1
	FaultNth  = 0
	FaultKind = 0 // 1 error, 2 nil result, 3 panic

	// CloseErrMask: bit slot set => instances of that slot return an error from Close.
	CloseErrMask int
	CloseErrAux  int

	YieldInCtor  bool
	YieldInClose bool
	OnCtor       func(slot int)
	OnFault      func()
	// AuxNilMask: bit slot set => multi-return constructors of that slot return a
	// nil pointer as their second output
	AuxNilMask int
	// ClosePanicMask: bit slot set => Close of instances of that slot panics
	ClosePanicMask int
	OnClose      func(in *Inst)

	// ActiveCloses is maintained by the harness around container Close calls.
	ActiveCloses []string

	Untouched = true
)

const (
	FaultError   = 1
	FaultNil     = 2
	FaultPanic   = 3
	FaultWrapped = 4
	// FaultCancel: the constructor succeeds, but first calls OnFault (the harness
	// cancels the context it gave to BuildWithContext there)
	FaultCancel = 5
)

// ---- value-typed disposables: instances that are equal as interface values
// (VS) or not even hashable (US); only counters can tell them apart.

type VS struct{ Pool int }

type US struct {
	Pool int
	f    func()
}

var (
	VSMade, VSClosed int
	USMade, USClosed int
	VSCloseErr       bool
)

func NewVS() VS { VSMade++; return VS{Pool: 1} }
func (v VS) Close() error {
	VSClosed++
	if VSCloseErr {
		return ErrClose
	}
	return nil
}

func NewUS() US { USMade++; return US{Pool: 1, f: func() {}} }
func (u US) Close() error {
	USClosed++
	return nil
}

//go:norace
func checkUntouched(ok bool) {
	if !ok {
		Untouched = false
	}
}

//go:norace
func invocations(slot int) int {
	n := 0
	for k := range Calls {
		n += Calls[k][slot]
	}
	return n
}

//go:norace
func tick() int {
	Seq++
	return Seq
}

//go:norace
func recordArgs(in *Inst, args []any) {
	for _, a := range args {
		switch x := a.(type) {
		case godi.Scope: // before context.Context: a Scope is not a Context, a Provider is not a Scope
			in.Scope, in.HasScope = x, true
			continue
		case godi.Provider:
			in.Prov, in.HasProv = x, true
			continue
		case context.Context:
			in.Ctx, in.HasCtx = x, true
			continue
		}
		insts, n := argInfo(a)
		in.Args = append(in.Args, insts...)
		in.ArgCount = append(in.ArgCount, n)
	}
}

//go:norace
func fault(slot int) int {
	if slot == FaultSlot && invocations(slot) == FaultNth {
		return FaultKind
	}
	return 0
}

// mk is called by every generated constructor.
//go:norace
func mk(b *Base, slot, variant, kind int, args ...any) (err error, isNil bool) {
	Calls[kind][slot]++
	if YieldInCtor {
		vrt.Yield()
	}
	if OnCtor != nil {
		OnCtor(slot)
	}
	switch fault(slot) {
	case FaultError:
		return ErrBoom, false
	case FaultWrapped:
		return ErrWrapped, false
	case FaultNil:
		return nil, true
	case FaultPanic:
		panic(PanicVal)
	case FaultCancel:
		if OnFault != nil {
			OnFault()
		}
	}
	in := &Inst{ID: len(Log), Slot: slot, Variant: variant, Kind: kind}
	recordArgs(in, args)
	in.CloseErr = CloseErrMask&(1<<slot) != 0
	in.Seq = tick()
	in.Handle = vrt.Track(b)
	Log = append(Log, in)
	Events = append(Events, Event{in.Seq, "ctor", in, slot})
	b.inst = in
	Done[kind][slot]++
	return nil, false
}

//go:norace
func mkAux(b *Base, primary *Base) {
	p := primary.inst
	in := &Inst{ID: len(Log), Slot: p.Slot, Variant: p.Variant, Kind: p.Kind, Aux: true, Primary: p}
	in.CloseErr = CloseErrAux&(1<<p.Slot) != 0
	in.Seq = tick()
	in.Handle = vrt.Track(b)
	Log = append(Log, in)
	b.inst = in
}

//go:norace
func mkInstance(b *Base, slot int) {
	in := &Inst{ID: len(Log), Slot: slot, Kind: KindInstance}
	in.CloseErr = CloseErrMask&(1<<slot) != 0
	in.Seq = tick()
	Log = append(Log, in)
	b.inst = in
}

// VoidCalls records the invocations of initializer functions.
type VoidCall struct {
	Seq     int
	Slot    int
	Variant int
	Args    []*Inst
	ArgCount []int
	In      *Inst // carries the built-ins received
}

var VoidLog []*VoidCall

//go:norace
func mkVoid(slot, variant, kind int, args ...any) error {
	Calls[kind][slot]++
	if YieldInCtor {
		vrt.Yield()
	}
	if OnCtor != nil {
		OnCtor(slot)
	}
	switch fault(slot) {
	case FaultError:
		if kind == KindVoidErr {
			return ErrBoom
		}
	case FaultWrapped:
		if kind == KindVoidErr {
			return ErrWrapped
		}
	case FaultPanic:
		panic(PanicVal)
	}
	vc := &VoidCall{Slot: slot, Variant: variant}
	tmp := &Inst{}
	recordArgs(tmp, args)
	vc.Args, vc.ArgCount, vc.In = tmp.Args, tmp.ArgCount, tmp
	vc.Seq = tick()
	VoidLog = append(VoidLog, vc)
	Done[kind][slot]++
	return nil
}

//go:norace
func (b *Base) doClose() error {
	in := b.inst
	if in == nil {
		return nil
	}
	if YieldInClose {
		vrt.Yield()
	}
	in.Closed++
	s := tick()
	in.CloseSeq = append(in.CloseSeq, s)
	in.CloseCtx = append(in.CloseCtx, closeCtx())
	Events = append(Events, Event{s, "close", in, in.Slot})
	if OnClose != nil {
		OnClose(in)
	}
	if !in.Aux && ClosePanicMask&(1<<in.Slot) != 0 {
		panic(PanicVal)
	}
	if in.CloseErr {
		return ErrClose
	}
	return nil
}

//go:norace
func closeCtx() string {
	s := ""
	for _, c := range ActiveCloses {
		s += c + ";"
	}
	return s
}

// Types for the reflect-based API.
var (
	TypeS  [NS]reflect.Type
	TypeA  [NS]reflect.Type
	TypeI0 = reflect.TypeOf((*I0)(nil)).Elem()
	TypeI1 = reflect.TypeOf((*I1)(nil)).Elem()
)

// InfoOf extracts the record behind any resolved value (nil if none).
func InfoOf(v any) *Inst {
	if v == nil {
		return nil
	}
	if i, ok := v.(I0); ok {
		insts, n := argInfo(i)
		if n == 1 {
			return insts[0]
		}
	}
	return nil
}
