package kit

// Reference model of the container: given a World it predicts, from the
// property statements alone, which registrations an identity resolves to, the
// dependency relation (cycles, lifetime conflicts, missing dependencies), and
// - by a direct recursive definition of singleton / scoped / transient - which
// instances exist after a history of resolutions, what each received, and how
// often each constructor ran. The harness binds model instances to the real
// objects it observes and asserts that the two graphs are isomorphic.

import (
	"github.com/junioryono/godi/v4/zzverif/vrt"
)

// ---- static relation

// DepEdge is one declared dependency of a registration, resolved against the
// world: Targets are the registrations that provide it.
type DepEdge struct {
	Spec     DepSpec
	Id       Ident
	Group    bool
	Optional bool
	Targets  []int
	Missing  bool // required, non-group, nobody provides it
}

func depIdent(d DepSpec) Ident {
	t := d.Target
	if t < 0 {
		t = TI0
	}
	switch d.Form {
	case FormNamed, FormNamedOptional:
		return Ident{Type: t, Key: "k1"}
	case FormGroup:
		return Ident{Type: t, Group: "g1"}
	}
	return Ident{Type: t}
}

// Providers lists the registrations resolvable under id, in registration order.
func (w *World) Providers(id Ident) []int {
	var out []int
	for k := 0; k < w.N; k++ {
		r := w.Order[k]
		if !w.Regs[r].Present {
			continue
		}
		for _, x := range w.Identities(r) {
			if x == id {
				out = append(out, r)
			}
		}
	}
	return out
}

func (w *World) DepsOf(r int) []DepEdge {
	g := w.Regs[r]
	if g.Form == IdInstance {
		return nil
	}
	var out []DepEdge
	for _, d := range Deps[r][g.Variant] {
		if d.Target < -1 {
			continue // built-in injectable: always available, not a registration
		}
		e := DepEdge{Spec: d, Id: depIdent(d), Group: d.Form == FormGroup, Optional: d.Form == FormOptional || d.Form == FormNamedOptional}
		e.Targets = w.Providers(e.Id)
		if !e.Group && len(e.Targets) == 0 && !e.Optional {
			e.Missing = true
		}
		out = append(out, e)
	}
	return out
}

// Duplicate reports whether two present registrations claim the same
// non-group identity (the later Add must be rejected).
func (w *World) Duplicate() bool {
	for a := 0; a < w.N; a++ {
		for b := a + 1; b < w.N; b++ {
			if !w.Regs[a].Present || !w.Regs[b].Present {
				continue
			}
			for _, x := range w.Identities(a) {
				for _, y := range w.Identities(b) {
					if x == y && x.Group == "" {
						return true
					}
				}
			}
		}
	}
	return false
}

// Edges returns the dependency relation as bit sets: adj[r] = registrations r
// depends on. throughGroup[r] = those reached only by a group edge.
func (w *World) Edges() (adj, viaGroup, viaPlain [NS]int) {
	for r := 0; r < w.N; r++ {
		if !w.Regs[r].Present {
			continue
		}
		for _, e := range w.DepsOf(r) {
			for _, t := range e.Targets {
				adj[r] |= 1 << t
				if e.Group {
					viaGroup[r] |= 1 << t
				} else {
					viaPlain[r] |= 1 << t
				}
			}
		}
	}
	return
}

func closure(adj [NS]int, n int) [NS]int {
	r := adj
	for k := 0; k < n; k++ {
		for i := 0; i < n; i++ {
			if r[i]&(1<<k) != 0 {
				r[i] |= r[k]
			}
		}
	}
	return r
}

func hasCycle(adj [NS]int, n int) bool {
	c := closure(adj, n)
	for i := 0; i < n; i++ {
		if c[i]&(1<<i) != 0 {
			return true
		}
	}
	return false
}

// Cyclic: the dependency relation (all edge forms) has a directed cycle.
func (w *World) Cyclic() bool {
	adj, _, _ := w.Edges()
	return hasCycle(adj, w.N)
}

// CyclicWithoutGroups: a cycle exists using non-group edges only.
func (w *World) CyclicWithoutGroups() bool {
	_, _, plain := w.Edges()
	return hasCycle(plain, w.N)
}

// Conflict: some singleton or transient directly depends on a scoped
// registration. viaGroupOnly: every such conflict goes through a group edge.
func (w *World) Conflict() (conflict, viaGroupOnly bool) {
	viaGroupOnly = true
	for r := 0; r < w.N; r++ {
		if !w.Regs[r].Present || w.Regs[r].Life == LScoped {
			continue
		}
		for _, e := range w.DepsOf(r) {
			for _, t := range e.Targets {
				if w.Regs[t].Life == LScoped {
					conflict = true
					if !e.Group {
						viaGroupOnly = false
					}
				}
			}
		}
	}
	if !conflict {
		viaGroupOnly = false
	}
	return
}

// MissingDeps: registrations with an unregistered required dependency.
func (w *World) MissingDeps() (any bool, singleton bool, nonSingleton bool) {
	for r := 0; r < w.N; r++ {
		if !w.Regs[r].Present {
			continue
		}
		for _, e := range w.DepsOf(r) {
			if e.Missing {
				any = true
				if w.Regs[r].Life == LSingleton {
					singleton = true
				} else {
					nonSingleton = true
				}
			}
		}
	}
	return
}

// MultiOutput: the registration's constructor yields a primary and an
// auxiliary service.
func (w *World) MultiOutput(r int) bool {
	switch w.Regs[r].Form {
	case IdMulti, IdResObj, IdResObj2, IdMultiNamed, IdMultiGroup:
		return true
	}
	return false
}

// Eager: the registrations whose constructors run during Build - singletons,
// scoped initializers (run for the provider's root scope) and everything those
// resolve, transitively.
func (w *World) Eager() int {
	// a failure behind an optional field is swallowed, so only required
	// edges make Build notice a missing dependency further down
	var adj [NS]int
	for r := 0; r < w.N; r++ {
		if !w.Regs[r].Present {
			continue
		}
		for _, e := range w.DepsOf(r) {
			if e.Optional {
				continue
			}
			for _, t := range e.Targets {
				adj[r] |= 1 << t
			}
		}
	}
	cl := closure(adj, w.N)
	e := 0
	for r := 0; r < w.N; r++ {
		if !w.Regs[r].Present {
			continue
		}
		if w.Regs[r].Life == LSingleton || (w.IsVoid(r) && w.Regs[r].Life == LScoped) {
			e |= 1<<r | cl[r]
		}
	}
	return e
}

// LazyMissing: some registration that Build does not run has an unregistered
// required dependency.
func (w *World) LazyMissing() bool {
	e := w.Eager()
	for r := 0; r < w.N; r++ {
		if !w.Regs[r].Present || e&(1<<r) != 0 {
			continue
		}
		for _, d := range w.DepsOf(r) {
			if d.Missing {
				return true
			}
		}
	}
	return false
}

func (w *World) IsVoid(r int) bool {
	return w.Regs[r].Form == IdVoid || w.Regs[r].Form == IdVoidErr
}

// ---- dynamic model

// MInst is a model instance.
type MInst struct {
	ID       int
	Reg      int
	Aux      bool
	Args     []*MInst
	ArgCount []int
	Owner    int // scope node that owns it; -1: provider (singleton)
	Real     *Inst
	Peer     *MInst // primary <-> aux
}

type mscope struct {
	cache  map[Ident]*MInst
	closed bool
}

type Model struct {
	W       *World
	singles map[Ident]*MInst
	scopes  []*mscope // node 0 = provider's root scope
	Count   [NS]int   // expected constructor invocations per registration
	All     []*MInst
	bound   map[*Inst]*MInst
	Prop    string // assertion-id prefix override ("" = by lifetime)
	Extra   [NS]int // constructor invocations made on behalf of another provider built from the same collection
}

// Twin returns the model of a second provider built from the same collection:
// its own instances, but one table of observed objects, so that an object seen
// through both providers for instances that must differ is reported.
func (m *Model) Twin() *Model {
	t := NewModel(m.W)
	t.bound = m.bound
	t.Prop = m.Prop
	return t
}

func NewModel(w *World) *Model {
	m := &Model{W: w, singles: map[Ident]*MInst{}, bound: map[*Inst]*MInst{}}
	m.scopes = []*mscope{{cache: map[Ident]*MInst{}}}
	return m
}

// NewScope adds a scope node and runs the scoped initializers in it.
func (m *Model) NewScope() int {
	m.scopes = append(m.scopes, &mscope{cache: map[Ident]*MInst{}})
	node := len(m.scopes) - 1
	m.runInitializers(node)
	return node
}

func (m *Model) runInitializers(node int) {
	w := m.W
	for k := 0; k < w.N; k++ {
		r := w.Order[k]
		if w.Regs[r].Present && w.IsVoid(r) && w.Regs[r].Life == LScoped {
			m.construct(r, node)
		}
	}
}

// Build constructs the root scope's initializers and every singleton once.
func (m *Model) Build() {
	w := m.W
	m.runInitializers(0)
	// any order that respects dependencies gives the same structure
	done := 0
	for pass := 0; pass < w.N+1; pass++ {
		for k := 0; k < w.N; k++ {
			r := w.Order[k]
			if !w.Regs[r].Present || w.Regs[r].Life != LSingleton || done&(1<<r) != 0 {
				continue
			}
			ready := true
			for _, e := range w.DepsOf(r) {
				for _, t := range e.Targets {
					if w.Regs[t].Life == LSingleton && done&(1<<t) == 0 && t != r {
						ready = false
					}
				}
			}
			if ready {
				m.ensureSingleton(r)
				done |= 1 << r
			}
		}
	}
}

func (m *Model) ensureSingleton(r int) {
	ids := m.W.Identities(r)
	if len(ids) > 0 {
		if _, ok := m.singles[ids[0]]; ok {
			return
		}
	}
	if m.W.IsVoid(r) {
		m.construct(r, 0)
		return
	}
	mi := m.construct(r, 0)
	mi.Owner = -1
	if mi.Peer != nil {
		mi.Peer.Owner = -1
	}
	m.store(m.singles, r, mi)
}

// store files a freshly constructed instance under the identities of r.
func (m *Model) store(tab map[Ident]*MInst, r int, mi *MInst) {
	ids := m.W.Identities(r)
	switch m.W.Regs[r].Form {
	case IdMulti, IdResObj, IdResObj2, IdMultiNamed:
		tab[ids[0]] = mi
		tab[ids[1]] = mi.Peer
	case IdMultiGroup:
		tab[Ident{Type: ids[0].Type, Group: ids[0].Group, Key: memberKey(r)}] = mi
		tab[Ident{Type: ids[1].Type, Group: ids[1].Group, Key: memberKey(r)}] = mi.Peer
	case IdGroup, IdAsGroup:
		tab[Ident{Type: ids[0].Type, Group: ids[0].Group, Key: memberKey(r)}] = mi
	default:
		for _, id := range ids {
			tab[id] = mi
		}
	}
}

func memberKey(r int) string { return "#" + string(rune('0'+r)) }

// construct runs registration r's constructor once, at scope node.
func (m *Model) construct(r, node int) *MInst {
	w := m.W
	mi := &MInst{ID: len(m.All), Reg: r, Owner: node}
	m.All = append(m.All, mi)
	if w.Regs[r].Form == IdInstance {
		return mi
	}
	m.Count[r]++
	for _, e := range w.DepsOf(r) {
		switch {
		case e.Group:
			for _, t := range e.Targets {
				mi.Args = append(mi.Args, m.resolveReg(t, e.Id, node))
			}
			mi.ArgCount = append(mi.ArgCount, len(e.Targets))
		case len(e.Targets) == 0:
			mi.ArgCount = append(mi.ArgCount, -1) // optional and absent
		default:
			mi.Args = append(mi.Args, m.resolveReg(e.Targets[0], e.Id, node))
			mi.ArgCount = append(mi.ArgCount, 1)
		}
	}
	if w.MultiOutput(r) {
		ax := &MInst{ID: len(m.All), Reg: r, Aux: true, Owner: node, Peer: mi}
		m.All = append(m.All, ax)
		mi.Peer = ax
	}
	return mi
}

// resolveReg yields the instance registration t provides for identity id when
// requested at scope node.
func (m *Model) resolveReg(t int, id Ident, node int) *MInst {
	w := m.W
	aux := false
	if ids := w.Identities(t); len(ids) > 1 && w.MultiOutput(t) && id == ids[1] {
		aux = true
	}
	key := id
	if id.Group != "" {
		key.Key = memberKey(t)
	}
	pick := func(mi *MInst) *MInst {
		if aux && !mi.Aux {
			return mi.Peer
		}
		if !aux && mi.Aux {
			return mi.Peer
		}
		return mi
	}
	switch w.Regs[t].Life {
	case LSingleton:
		if mi, ok := m.singles[key]; ok {
			return mi
		}
		// singleton requested before it exists (only during Build of a cycle-
		// free world in dependency order this cannot happen)
		m.ensureSingleton(t)
		return m.singles[key]
	case LScoped:
		sc := m.scopes[node]
		if mi, ok := sc.cache[key]; ok {
			return mi
		}
		mi := m.construct(t, node)
		m.store(sc.cache, t, mi)
		return sc.cache[key]
	}
	return pick(m.construct(t, node))
}

// Resolve is a direct request for identity id at scope node. For a group it
// returns one instance per member; ok=false means "not found".
func (m *Model) Resolve(id Ident, node int) (out []*MInst, ok bool) {
	ps := m.W.Providers(id)
	if id.Group != "" {
		for _, t := range ps {
			out = append(out, m.resolveReg(t, id, node))
		}
		return out, true
	}
	if len(ps) == 0 {
		return nil, false
	}
	return []*MInst{m.resolveReg(ps[0], id, node)}, true
}

// ---- binding model instances to observed objects

func (m *Model) prefix(r int, what string) string {
	if m.Prop != "" {
		return m.Prop + "." + what
	}
	switch m.W.Regs[r].Life {
	case LSingleton:
		return "C01." + what
	case LScoped:
		return "C02." + what
	}
	return "C03." + what
}

// Bind asserts that the observed object v is the model instance mi, and that
// everything it received is what the model says it must have received.
func (m *Model) Bind(mi *MInst, v any, ctx string) {
	in := InfoOf(v)
	vrt.Assert(in != nil, "C04.resolved_value_untracked", ctx)
	if in == nil {
		return
	}
	m.bindInst(mi, in, ctx, 0)
}

func (m *Model) bindInst(mi *MInst, in *Inst, ctx string, depth int) {
	if mi == nil || depth > 8 {
		return
	}
	vrt.Assert(in != nil, "C04.argument_missing", ctx)
	if in == nil {
		return
	}
	vrt.Assert(in.Slot == mi.Reg && in.Aux == mi.Aux, "C04.wrong_producer", ctx, "got slot", in.Slot, "want", mi.Reg)
	if in.Slot != mi.Reg || in.Aux != mi.Aux {
		return
	}
	if mi.Real != nil {
		vrt.Assert(mi.Real == in, m.prefix(mi.Reg, "identity"), ctx, "one model instance observed as two objects", mi.Real.ID, in.ID)
		return
	}
	prev, shared := m.bound[in]
	vrt.Assert(!shared, m.prefix(mi.Reg, "shared"), ctx, "one object stands for two instances that must differ", in.ID)
	if shared {
		_ = prev
		return
	}
	mi.Real = in
	m.bound[in] = mi
	if in.Aux {
		if mi.Peer != nil && in.Primary != nil {
			m.bindInst(mi.Peer, in.Primary, ctx+"/primary", depth+1)
		}
		return
	}
	if in.Kind == KindInstance {
		return
	}
	okShape := len(in.ArgCount) == len(mi.ArgCount)
	if okShape {
		for j := range in.ArgCount {
			if in.ArgCount[j] != mi.ArgCount[j] {
				okShape = false
			}
		}
	}
	vrt.Assert(okShape, "C04.argument_shape", ctx, "constructor of slot", in.Slot, "received", in.ArgCount, "model says", mi.ArgCount)
	if !okShape && len(in.ArgCount) == len(mi.ArgCount) {
		// a registered singleton / scoped service that was not injected at all
		k := 0
		for j := range mi.ArgCount {
			if mi.ArgCount[j] == 1 && in.ArgCount[j] == -1 && k < len(mi.Args) && mi.Args[k] != nil {
				vrt.Assert(false, m.prefix(mi.Args[k].Reg, "not_injected"), ctx, "registration", mi.Args[k].Reg, "is registered but its consumer (slot", in.Slot, ") received nil")
			}
			if mi.ArgCount[j] > 0 {
				k += mi.ArgCount[j]
			}
		}
	}
	if !okShape || len(in.Args) != len(mi.Args) {
		return
	}
	for j := range mi.Args {
		m.bindInst(mi.Args[j], in.Args[j], ctx+"/arg", depth+1)
	}
}

// CheckCounts compares constructor invocation counters with the model.
func (m *Model) CheckCounts(ctx string) {
	for r := 0; r < m.W.N; r++ {
		if !m.W.Regs[r].Present {
			continue
		}
		got := 0
		for k := range Calls {
			got += Calls[k][r]
		}
		vrt.Assert(got == m.Count[r]+m.Extra[r], m.prefix(r, "ctor_count"), ctx, "constructor of registration", r, "ran", got, "times; model says", m.Count[r]+m.Extra[r])
	}
}
