package kit

import (
	"errors"

	"github.com/junioryono/godi/v4"
)

// Class classifies an error with errors.Is / errors.As only.
func Class(err error) string {
	if err == nil {
		return "ok"
	}
	var ce *godi.CircularDependencyError
	var le *godi.LifetimeConflictError
	var ar *godi.AlreadyRegisteredError
	var cp *godi.ConstructorPanicError
	switch {
	case errors.As(err, &ce):
		return "cycle"
	case errors.As(err, &le):
		return "lifetime"
	case errors.Is(err, godi.ErrServiceNotFound):
		return "notfound"
	case errors.Is(err, godi.ErrScopeDisposed):
		return "scope-disposed"
	case errors.Is(err, godi.ErrProviderDisposed):
		return "provider-disposed"
	case errors.Is(err, godi.ErrSingletonNotInitialized):
		return "singleton-not-init"
	case errors.As(err, &ar):
		return "already"
	case errors.As(err, &cp):
		return "panic"
	case errors.Is(err, ErrBoom):
		return "boom"
	}
	return "other"
}

// Reset clears the instrumentation (used when one harness run builds twice).
func Reset() {
	Seq = 0
	Log = nil
	Events = nil
	VoidLog = nil
	Calls = [7][NS]int{}
	Done = [7][NS]int{}
	Untouched = true
}
