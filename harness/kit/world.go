package kit

import (
	"reflect"

	"github.com/junioryono/godi/v4"
	"github.com/junioryono/godi/v4/zzverif/vrt"
)

// Lifetimes (values chosen to match godi's constants by name, not by number).
const (
	LSingleton = 0
	LScoped    = 1
	LTransient = 2
)

// Identity forms of a registration.
const (
	IdPlain      = iota // (S, nil)
	IdNamed             // (S, "k1")
	IdGroup             // member of (S, "g1")
	IdAs                // (I0, nil)
	IdAsNamed           // (I0, "k1")
	IdAsGroup           // member of (I0, "g1")
	IdAs2               // (I0, nil) and (I1, nil)   [slots 0,1 only implement I1]
	IdInstance          // registered value, (S, nil)
	IdMulti             // (S, nil) and (A, nil)
	IdResObj            // (S, nil) and (A, "k1")
	IdVoid              // initializer func(deps)
	IdVoidErr           // initializer func(deps) error
	IdPlainNoErr        // (S, nil) through a constructor without error return
	IdResObj2           // result object with two fields of type S: (S, nil) and (S, "k1")
	IdMultiNamed        // multi-return + Name: (S, "k1") and (A, nil)
	IdMultiGroup        // multi-return + Group: members of (S, "g1") and (A, "g1")
	IdResObjGroup2      // result object: two members of (S, "g1") and (A, nil)  [registry harness only]
	IdIface             // constructor whose declared result type is the interface I0: (I0, nil)
	NumIdForms
)

// Reg is one registration of the world: registration r always produces slot r.
type Reg struct {
	Present bool
	Life    int
	Form    int
	Variant int
}

type World struct {
	N     int // number of slots in play (<= NS)
	Regs  [NS]Reg
	Order [NS]int // registration order (a permutation of 0..N-1)
}

func (w *World) Lifetime(r int) godi.Lifetime {
	switch w.Regs[r].Life {
	case LSingleton:
		return godi.Singleton
	case LScoped:
		return godi.Scoped
	}
	return godi.Transient
}

// Ctor returns the constructor (or value) registered for r and its options.
func (w *World) Ctor(r int) (any, []godi.AddOption) {
	g := w.Regs[r]
	var opts []godi.AddOption
	switch g.Form {
	case IdPlain:
		return TabC[r][g.Variant], nil
	case IdPlainNoErr:
		return TabP[r][g.Variant], nil
	case IdNamed:
		return TabC[r][g.Variant], append(opts, godi.Name("k1"))
	case IdGroup:
		return TabC[r][g.Variant], append(opts, godi.Group("g1"))
	case IdAs:
		return TabC[r][g.Variant], append(opts, godi.As[I0]())
	case IdAsNamed:
		return TabC[r][g.Variant], append(opts, godi.As[I0](), godi.Name("k1"))
	case IdAsGroup:
		return TabC[r][g.Variant], append(opts, godi.As[I0](), godi.Group("g1"))
	case IdAs2:
		return TabC[r][g.Variant], append(opts, godi.As[I0](), godi.As[I1]())
	case IdInstance:
		return NewInstance(r), nil
	case IdMulti:
		return TabM[r][g.Variant], nil
	case IdResObj:
		return TabR[r][g.Variant], nil
	case IdResObj2:
		return TabB[r][g.Variant], nil
	case IdResObjGroup2:
		return TabG[r][g.Variant], nil
	case IdMultiNamed:
		return TabM[r][g.Variant], append(opts, godi.Name("k1"))
	case IdMultiGroup:
		return TabM[r][g.Variant], append(opts, godi.Group("g1"))
	case IdIface:
		return TabCI[r][g.Variant], nil
	case IdVoid:
		return TabV[r][g.Variant], nil
	case IdVoidErr:
		return TabE[r][g.Variant], nil
	}
	panic("kit: bad form")
}

// Register adds the world's registrations to c in w.Order; it returns the
// error of each Add (indexed by registration).
func (w *World) Register(c godi.Collection) [NS]error {
	var errs [NS]error
	for k := 0; k < w.N; k++ {
		r := w.Order[k]
		if !w.Regs[r].Present {
			continue
		}
		errs[r] = w.Add(c, r)
	}
	return errs
}

func (w *World) Add(c godi.Collection, r int) error {
	ctor, opts := w.Ctor(r)
	switch w.Regs[r].Life {
	case LSingleton:
		return c.AddSingleton(ctor, opts...)
	case LScoped:
		return c.AddScoped(ctor, opts...)
	}
	return c.AddTransient(ctor, opts...)
}

// Ident is a (type, key, group) identity in model terms.
type Ident struct {
	Type  int // slot for TS; NS+slot for A types; 100 = I0; 101 = I1
	Key   string
	Group string
}

const (
	TI0   = 100
	TI1   = 101
	TVoid = 102 // struct{}: the type under which functions without a service result are registered
)

var TypeVoid = reflect.TypeOf((*struct{})(nil)).Elem()

func (id Ident) RType() reflect.Type {
	switch {
	case id.Type == TI0:
		return TypeI0
	case id.Type == TI1:
		return TypeI1
	case id.Type == TVoid:
		return TypeVoid
	case id.Type >= NS:
		return TypeA[id.Type-NS]
	}
	return TypeS[id.Type]
}

// Identities under which registration r is resolvable (model).
func (w *World) Identities(r int) []Ident {
	switch w.Regs[r].Form {
	case IdPlain, IdInstance, IdPlainNoErr:
		return []Ident{{Type: r}}
	case IdNamed:
		return []Ident{{Type: r, Key: "k1"}}
	case IdGroup:
		return []Ident{{Type: r, Group: "g1"}}
	case IdAs, IdIface:
		return []Ident{{Type: TI0}}
	case IdAsNamed:
		return []Ident{{Type: TI0, Key: "k1"}}
	case IdAsGroup:
		return []Ident{{Type: TI0, Group: "g1"}}
	case IdAs2:
		return []Ident{{Type: TI0}, {Type: TI1}}
	case IdMulti:
		return []Ident{{Type: r}, {Type: NS + r}}
	case IdResObj:
		return []Ident{{Type: r}, {Type: NS + r, Key: "k1"}}
	case IdResObj2:
		return []Ident{{Type: r}, {Type: r, Key: "k1"}}
	case IdResObjGroup2:
		return []Ident{{Type: r, Group: "g1"}, {Type: r, Group: "g1"}, {Type: NS + r}}
	case IdMultiNamed:
		return []Ident{{Type: r, Key: "k1"}, {Type: NS + r}}
	case IdMultiGroup:
		return []Ident{{Type: r, Group: "g1"}, {Type: NS + r, Group: "g1"}}
	}
	return nil // initializers have no resolvable identity
}

// HasAux: registration r also produces the auxiliary type A<r>.
func (w *World) HasAux(r int) bool {
	switch w.Regs[r].Form {
	case IdMulti, IdResObj, IdResObjGroup2, IdMultiNamed, IdMultiGroup:
		return true
	}
	return false
}

// PickWorld draws a world from symbolic selectors. forms / variants list the
// admissible values (bounds of the harness).
func PickWorld(n int, lifes, forms, variants []int) *World {
	w := &World{N: n}
	for r := 0; r < n; r++ {
		w.Order[r] = r
		sfx := string(rune('0' + r))
		w.Regs[r].Present = true
		w.Regs[r].Life = lifes[vrt.Pick("life"+sfx, 0, len(lifes)-1)]
		w.Regs[r].Form = forms[vrt.Pick("form"+sfx, 0, len(forms)-1)]
		w.Regs[r].Variant = variants[vrt.Pick("var"+sfx, 0, len(variants)-1)]
	}
	return w
}
