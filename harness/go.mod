module github.com/junioryono/godi/v4/zzverif

go 1.24.6

require github.com/junioryono/godi/v4 v4.0.0

replace github.com/junioryono/godi/v4 => /repo
