package smoke

import (
	"maps"
	"sync/atomic"

	"github.com/junioryono/godi/v4/zzverif/vrt"
)

type apHolder struct {
	n   int
	ptr atomic.Pointer[map[string]int]
}

// H_Clone: VM self-test of atomic.Pointer[T] (unsafe.Pointer round trip) and maps.Clone.
func H_Clone() {
	h := &apHolder{}
	vrt.Assert(h.ptr.Load() == nil, "SMOKE.ap0", "fresh pointer not nil")
	m := map[string]int{"a": 1}
	h.ptr.Store(&m)
	cur := h.ptr.Load()
	vrt.Assert(cur != nil, "SMOKE.ap1", "stored pointer reads nil")
	if cur != nil {
		(*cur)["b"] = 2
		vrt.Assert(len(m) == 2, "SMOKE.ap2", "alias lost")
	}
	h.ptr.Store(nil)
	vrt.Assert(h.ptr.Load() == nil, "SMOKE.ap3", "nil store")
	old := h.ptr.Swap(&m)
	vrt.Assert(old == nil && h.ptr.Load() == &m, "SMOKE.ap4", "swap")
	vrt.Assert(h.ptr.CompareAndSwap(&m, nil) && h.ptr.Load() == nil, "SMOKE.ap5", "cas")
	c := maps.Clone(m)
	c["c"] = 3
	vrt.Assert(len(c) == 3 && len(m) == 2 && c["a"] == 1, "SMOKE.clone", "clone wrong", len(c), len(m))
	var nilm map[string]int
	vrt.Assert(maps.Clone(nilm) == nil, "SMOKE.clone_nil", "clone of nil map")
}
