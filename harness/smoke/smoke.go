// Package smoke: translator-validation harness. It asserts nothing about godi;
// it drives a whole container life cycle and traces what it observes so that
// VM and native runs can be compared input by input.
package smoke

import (
	"errors"

	"github.com/junioryono/godi/v4"
	"github.com/junioryono/godi/v4/zzverif/kit"
	"github.com/junioryono/godi/v4/zzverif/vrt"
)

func class(err error) string {
	if err == nil {
		return "ok"
	}
	var ce *godi.CircularDependencyError
	var le *godi.LifetimeConflictError
	var ar *godi.AlreadyRegisteredError
	var cp *godi.ConstructorPanicError
	switch {
	case errors.Is(err, godi.ErrServiceNotFound):
		return "notfound"
	case errors.Is(err, godi.ErrScopeDisposed):
		return "scope-disposed"
	case errors.Is(err, godi.ErrProviderDisposed):
		return "provider-disposed"
	case errors.Is(err, godi.ErrSingletonNotInitialized):
		return "singleton-not-init"
	case errors.As(err, &ce):
		return "cycle"
	case errors.As(err, &le):
		return "lifetime"
	case errors.As(err, &ar):
		return "already"
	case errors.As(err, &cp):
		return "panic"
	case errors.Is(err, kit.ErrBoom):
		return "boom"
	}
	return "other"
}

func H_Smoke() {
	n := vrt.Param("n", 2)
	forms := []int{kit.IdPlain, kit.IdNamed, kit.IdGroup, kit.IdAs, kit.IdAsGroup, kit.IdInstance, kit.IdMulti, kit.IdResObj, kit.IdPlainNoErr, kit.IdVoid}
	variants := make([]int, kit.NV)
	for i := range variants {
		variants[i] = i
	}
	w := kit.PickWorld(n, []int{0, 1, 2}, forms, variants)
	c := godi.NewCollection()
	errs := w.Register(c)
	for r := 0; r < n; r++ {
		vrt.Trace("add%d=%s", r, class(errs[r]))
	}
	vrt.Trace("count=%d", c.Count())
	p, err := c.Build()
	vrt.Trace("build=%s", class(err))
	if err != nil {
		return
	}
	sc, err := p.CreateScope(nil)
	vrt.Trace("scope=%s", class(err))
	if err == nil {
		for r := 0; r < n; r++ {
			for _, id := range w.Identities(r) {
				if id.Group != "" {
					vs, err := sc.GetGroup(id.RType(), id.Group)
					vrt.Trace("group%d n=%d %s", r, len(vs), class(err))
				} else if id.Key != "" {
					v, err := sc.GetKeyed(id.RType(), id.Key)
					vrt.Trace("keyed%d %v %s", r, v != nil, class(err))
				} else {
					v, err := sc.Get(id.RType())
					vrt.Trace("get%d %v %s", r, v != nil, class(err))
					if in := kit.InfoOf(v); in != nil {
						vrt.Trace("  slot=%d args=%d", in.Slot, len(in.Args))
					}
				}
			}
		}
		vrt.Trace("close-scope=%s", class(sc.Close()))
	}
	vrt.Trace("close=%s", class(p.Close()))
	for r := 0; r < n; r++ {
		vrt.Trace("calls%d=%d", r, kit.Calls[kit.KindCtor][r]+kit.Calls[kit.KindPlain][r]+kit.Calls[kit.KindMulti][r]+kit.Calls[kit.KindResObj][r]+kit.Calls[kit.KindVoid][r])
	}
	closed := 0
	for _, in := range kit.Log {
		closed += in.Closed
	}
	vrt.Trace("log=%d closed=%d", len(kit.Log), closed)
}
