package vrt

import (
	"reflect"
	"runtime"
	"unsafe"
	"weak"
)

var tracked []weak.Pointer[byte]

// Track remembers the object p points to without keeping it alive and returns
// a handle. (VM: remembers the pointer itself; reachability is then decided by
// a heap walk from the root given to Released.)
func Track(p any) int {
	v := reflect.ValueOf(p)
	if v.Kind() != reflect.Pointer || v.IsNil() {
		panic("vrt.Track: need a non-nil pointer")
	}
	mu.Lock()
	defer mu.Unlock()
	tracked = append(tracked, weak.Make((*byte)(unsafe.Pointer(v.Pointer()))))
	return len(tracked) - 1
}

// Released reports that the tracked object is no longer reachable from root
// (natively: from anywhere - the harness must have dropped its own references).
func Released(root any, h int) bool {
	for i := 0; i < 4; i++ {
		runtime.GC()
		if tracked[h].Value() == nil {
			runtime.KeepAlive(root)
			return true
		}
		Quiesce()
	}
	runtime.KeepAlive(root)
	return false
}

// HeapSize is the number of heap cells reachable from root (VM only; natively 0).
func HeapSize(root any) int { return 0 }
