// Package vrt is the harness runtime. Under the gosym VM every function here
// is intercepted (vm/intrinsics.go); this file is the NATIVE implementation
// used for replaying counterexamples and for translator validation.
package vrt

import (
	"encoding/json"
	"fmt"
	"os"
	"runtime"
	"strings"
	"sync"
	"time"
)

type replayFile struct {
	Env      map[string]uint64 `json:"env"`
	AssertID string            `json:"assert_id"`
	Params   map[string]int    `json:"params"`
}

var (
	mu       sync.Mutex
	loaded   bool
	rf       replayFile
	failed   = map[string]string{}
	covers   = map[string]bool{}
	trace    []string
	wg       sync.WaitGroup
	rngState uint64
	random   bool
)

func load() {
	if loaded {
		return
	}
	loaded = true
	rf.Env = map[string]uint64{}
	rf.Params = map[string]int{}
	if p := os.Getenv("VRT_REPLAY"); p != "" {
		b, err := os.ReadFile(p)
		if err != nil {
			fmt.Fprintln(os.Stderr, "vrt: cannot read replay file:", err)
			os.Exit(4)
		}
		if err := json.Unmarshal(b, &rf); err != nil {
			fmt.Fprintln(os.Stderr, "vrt: bad replay file:", err)
			os.Exit(4)
		}
		if rf.Env == nil {
			rf.Env = map[string]uint64{}
		}
		if rf.Params == nil {
			rf.Params = map[string]int{}
		}
	}
	if s := os.Getenv("VRT_RANDOM"); s != "" {
		random = true
		fmt.Sscan(s, &rngState)
		rngState = rngState*2862933555777941757 + 3037000493
	}
}

func rnd() uint64 {
	rngState ^= rngState << 13
	rngState ^= rngState >> 7
	rngState ^= rngState << 17
	return rngState
}

// Symbolic reports whether the harness runs under the VM.
func Symbolic() bool { return false }

// Int is a nondeterministic int in [lo,hi]. Natively: the value from the
// replay file (lo when absent), or a pseudo-random one under VRT_RANDOM; the
// chosen values are printed so that the VM can re-run the same input.
func Int(name string, lo, hi int) int {
	mu.Lock()
	defer mu.Unlock()
	load()
	if v, ok := rf.Env["|"+name+"|"]; ok {
		return int(int64(v))
	}
	if v, ok := rf.Env[name]; ok {
		return int(int64(v))
	}
	v := lo
	if random && hi > lo {
		v = lo + int(rnd()%uint64(hi-lo+1))
	}
	fmt.Printf("VRT-INPUT %s %d\n", name, v)
	return v
}

// Pick is Int whose value is enumerated at once (every feasible value becomes
// one path): for selector-like inputs that the code case-splits on anyway.
func Pick(name string, lo, hi int) int { return Int(name, lo, hi) }

func Bool(name string) bool {
	mu.Lock()
	defer mu.Unlock()
	load()
	if v, ok := rf.Env["|"+name+"|"]; ok {
		return v != 0
	}
	v := false
	if random {
		v = rnd()%2 == 1
	}
	b := 0
	if v {
		b = 1
	}
	fmt.Printf("VRT-INPUT %s %d\n", name, b)
	return v
}

// Param is a bound chosen by the check tier.
func Param(name string, def int) int {
	mu.Lock()
	defer mu.Unlock()
	load()
	if v, ok := rf.Params[name]; ok {
		return v
	}
	return def
}

type pathEnd struct{}

// Assume prunes the path.
func Assume(cond bool) {
	if !cond {
		panic(pathEnd{})
	}
}

// Assert states an obligation of the property.
func Assert(cond bool, id string, msg ...any) {
	if cond {
		return
	}
	mu.Lock()
	if _, dup := failed[id]; !dup {
		failed[id] = fmt.Sprint(msg...)
		fmt.Printf("VRT-FAIL %s %s\n", id, strings.TrimSpace(fmt.Sprintln(msg...)))
	}
	mu.Unlock()
}

func Cover(id string) {
	mu.Lock()
	covers[id] = true
	mu.Unlock()
}

// Finding marks the path as lying inside the carve-out of a known finding.
func Finding(id string, cond bool) {}

// Limit names the obligation to blame when the VM's depth/step bound is hit.
func Limit(id string) {}

// ---- goroutines of the harness. Under the VM a context switch between them
// is a solver-decided choice at every Yield / exit / WaitAll; a replay file
// carries those choices ("sched!k"), and the native runtime below re-enacts
// them with a baton so that the same interleaving runs against the natively
// compiled container. Without a replay file the goroutines run free.

type gstate struct {
	id      int
	wake    chan struct{}
	done    bool
	waiting bool
	ready   func() bool // parked on a container lock (G2 replay): runnable iff ready()
	goid    uint64
}

var (
	gs       []*gstate
	cur      *gstate
	schedSeq []int
	schedPos int
	baton    bool
)

func initSched() {
	load()
	if gs != nil {
		return
	}
	main := &gstate{id: 0, wake: make(chan struct{}, 1)}
	gs = []*gstate{main}
	cur = main
	type kv struct {
		k int
		v int
	}
	var seq []kv
	for name, v := range rf.Env {
		n := strings.Trim(name, "|")
		if strings.HasPrefix(n, "sched!") && os.Getenv("VRT_NOBATON") == "" {
			var k int
			fmt.Sscanf(n[len("sched!"):], "%d", &k)
			seq = append(seq, kv{k, int(v)})
			baton = true
		}
	}
	for i := 0; i < len(seq); i++ {
		for j := i + 1; j < len(seq); j++ {
			if seq[j].k < seq[i].k {
				seq[i], seq[j] = seq[j], seq[i]
			}
		}
	}
	for _, e := range seq {
		schedSeq = append(schedSeq, e.v)
	}
	if os.Getenv("VRT_BATON") != "" {
		baton = true
	}
}

func runnable(includeCur bool) []*gstate {
	var out []*gstate
	for _, g := range gs {
		if g.done || g.waiting {
			continue
		}
		if g != cur && g.ready != nil && !g.ready() {
			continue
		}
		if g == cur && !includeCur {
			continue
		}
		out = append(out, g)
	}
	return out
}

func choose(c []*gstate) *gstate {
	if len(c) == 1 {
		return c[0]
	}
	k := 0
	if schedPos < len(schedSeq) {
		k = schedSeq[schedPos]
	}
	schedPos++
	if k >= len(c) {
		k = 0
	}
	return c[k]
}

func switchTo(next *gstate) {
	me := cur
	if next == me {
		return
	}
	cur = next
	next.wake <- struct{}{}
	<-me.wake
}

func Go(name string, f func()) {
	initSched()
	if !baton {
		wg.Add(1)
		go func() {
			defer wg.Done()
			f()
		}()
		return
	}
	g := &gstate{id: len(gs), wake: make(chan struct{}, 1)}
	gs = append(gs, g)
	go func() {
		<-g.wake
		g.goid = goid()
		defer func() {
			g.done = true
			c := runnable(false)
			if len(c) == 0 {
				// only waiters are left: wake main
				cur = gs[0]
				gs[0].wake <- struct{}{}
				return
			}
			next := choose(c)
			cur = next
			next.wake <- struct{}{}
		}()
		f()
	}()
}

func Yield() {
	initSched()
	if !baton {
		runtime.Gosched()
		return
	}
	c := runnable(true)
	if len(c) == 0 {
		return
	}
	switchTo(choose(c))
}

func WaitAll() {
	initSched()
	if !baton {
		wg.Wait()
		return
	}
	me := cur
	for {
		allDone := true
		for _, g := range gs {
			if g != me && !g.done {
				allDone = false
			}
		}
		if allDone {
			return
		}
		me.waiting = true
		c := runnable(false)
		if len(c) == 0 {
			me.waiting = false
			return
		}
		next := choose(c)
		cur = next
		next.wake <- struct{}{}
		<-me.wake
		me.waiting = false
	}
}

// Quiesce lets container-spawned goroutines run until they are blocked or done.
func Quiesce() {
	// natively "blocked or done" is approximated by a goroutine count that stays
	// the same over several consecutive polls (a woken watcher that has not been
	// scheduled yet does not change the count, hence more than one poll)
	prev, stable := -1, 0
	for i := 0; i < 400; i++ {
		runtime.Gosched()
		time.Sleep(500 * time.Microsecond)
		n := runtime.NumGoroutine()
		if n == prev {
			stable++
		} else {
			stable = 0
		}
		if stable >= 6 {
			return
		}
		prev = n
	}
}

func Preempt(on bool)  {}

// ---- G2: pre-emption at synchronisation points of the container. Under the VM
// vrt.G2(n) allows n involuntary context switches, each placed by the solver in
// front of any mutex acquisition / atomic / sync.Map operation executed by godi's
// code. Natively the same points exist only in a replay runner built with
// `-tags verifhook -overlay <instrumented godi sources>` (gosym instrument):
// there every such operation first calls SyncPoint / LockPoint / RLockPoint below,
// which follow the recorded choices with the baton. In an ordinary build nothing
// calls them and G2 only records the budget.

var g2budget int

func G2(n int) {
	initSched()
	g2budget = n
	if gs[0].goid == 0 {
		gs[0].goid = goid()
	}
}

func goid() uint64 {
	var buf [64]byte
	n := runtime.Stack(buf[:], false)
	// "goroutine 123 [running]:"
	var id uint64
	for _, c := range buf[len("goroutine "):n] {
		if c < '0' || c > '9' {
			break
		}
		id = id*10 + uint64(c-'0')
	}
	return id
}

// managed reports whether the calling goroutine is the harness goroutine that
// holds the baton (container-spawned goroutines are never scheduled by it).
func managed() bool {
	return baton && cur != nil && cur.goid != 0 && cur.goid == goid()
}

// SyncPoint is called by the instrumented container in front of an atomic /
// sync.Map operation.
func SyncPoint() {
	if g2budget <= 0 || !managed() {
		return
	}
	c := runnable(true)
	if len(c) < 2 {
		return
	}
	next := choose(c)
	if next != cur {
		g2budget--
		switchTo(next)
	}
}

// LockPoint replaces m.Lock() in the instrumented container: a scheduling point,
// then an acquisition that parks with the baton instead of blocking the thread.
func LockPoint(m interface {
	Lock()
	TryLock() bool
	Unlock()
}) {
	if !baton || !managed() {
		m.Lock()
		return
	}
	SyncPoint()
	acquire(m.TryLock, func() bool {
		if m.TryLock() {
			m.Unlock()
			return true
		}
		return false
	}, m.Lock)
}

func RLockPoint(m interface {
	RLock()
	TryRLock() bool
	RUnlock()
}) {
	if !baton || !managed() {
		m.RLock()
		return
	}
	SyncPoint()
	acquire(m.TryRLock, func() bool {
		if m.TryRLock() {
			m.RUnlock()
			return true
		}
		return false
	}, m.RLock)
}

func acquire(try func() bool, probe func() bool, block func()) {
	me := cur
	for !try() {
		me.ready = probe
		c := runnable(false)
		if len(c) == 0 {
			// held by a goroutine the baton does not schedule: wait for real
			me.ready = nil
			block()
			return
		}
		next := choose(c)
		cur = next
		next.wake <- struct{}{}
		<-me.wake
		me.ready = nil
	}
}
func SetMapOrder(k int) {}

func Goroutines() int {
	Quiesce()
	return runtime.NumGoroutine() - baseGoroutines
}

var baseGoroutines = 0

func Trace(format string, args ...any) {
	mu.Lock()
	trace = append(trace, fmt.Sprintf(format, args...))
	mu.Unlock()
}

// Run executes a harness natively and exits: 0 = no assertion failed,
// 3 = the expected assertion (or, without expectation, any) failed.
func Run(h func()) {
	load()
	baseGoroutines = runtime.NumGoroutine() - 1
	func() {
		defer func() {
			if p := recover(); p != nil {
				if _, ok := p.(pathEnd); ok {
					fmt.Println("VRT-PRUNED")
					return
				}
				panic(p)
			}
		}()
		h()
	}()
	for _, t := range trace {
		fmt.Println("VRT-TRACE", t)
	}
	mu.Lock()
	defer mu.Unlock()
	if rf.AssertID != "" {
		if _, ok := failed[rf.AssertID]; ok {
			os.Exit(3)
		}
		os.Exit(0)
	}
	if len(failed) > 0 {
		os.Exit(3)
	}
	os.Exit(0)
}

// RaceDetect switches the VM's happens-before race detector on (natively a
// no-op: the native confirmation runs under `go test -race` semantics, i.e. a
// replay binary built with -race).
func RaceDetect(on bool) {}
