//go:build verifhook

package vrt

// Wires the scheduling points of the instrumented container sources (see
// gosym instrument) to the native baton. Only compiled into G2 replay runners.

import (
	"github.com/junioryono/godi/v4"
	"github.com/junioryono/godi/v4/internal/graph"
	"github.com/junioryono/godi/v4/internal/reflection"
)

func init() {
	godi.ZZVerifPoint, godi.ZZVerifLock, godi.ZZVerifRLock = SyncPoint, LockPoint, RLockPoint
	graph.ZZVerifPoint, graph.ZZVerifLock, graph.ZZVerifRLock = SyncPoint, LockPoint, RLockPoint
	reflection.ZZVerifPoint, reflection.ZZVerifLock, reflection.ZZVerifRLock = SyncPoint, LockPoint, RLockPoint
}
