// Command replay runs one harness natively (against the natively compiled
// /repo) on the inputs of a replay file (VRT_REPLAY) or on pseudo-random
// inputs (VRT_RANDOM=<seed>).
package main

import (
	"fmt"
	"os"

	"github.com/junioryono/godi/v4/zzverif/registry"
	"github.com/junioryono/godi/v4/zzverif/vrt"
)

func main() {
	if len(os.Args) < 2 {
		fmt.Fprintln(os.Stderr, "usage: replay <harness>")
		os.Exit(4)
	}
	h := registry.Harnesses[os.Args[1]]
	if h == nil {
		fmt.Fprintln(os.Stderr, "unknown harness", os.Args[1])
		os.Exit(4)
	}
	vrt.Run(h)
}
