package cont

import (
	"context"
	"errors"

	"github.com/junioryono/godi/v4"
	"github.com/junioryono/godi/v4/zzverif/kit"
	"github.com/junioryono/godi/v4/zzverif/vrt"
)

// guard runs f and reports whether it panicked.
func guard(f func()) (panicked bool, val any) {
	defer func() {
		if r := recover(); r != nil {
			panicked, val = true, r
		}
	}()
	f()
	return
}

func isDisposed(err error) bool {
	return errors.Is(err, godi.ErrScopeDisposed) || errors.Is(err, godi.ErrProviderDisposed)
}

// useAll issues every kind of operation on a node that must be closed and
// demands the disposed error from each.
func useAll(p godi.Provider, isProvider bool, what string) {
	want := godi.ErrScopeDisposed
	if isProvider {
		want = godi.ErrProviderDisposed
	}
	_, e1 := p.Get(kit.TypeS[0])
	vrt.Assert(errors.Is(e1, want), "C13.get_after_close", what, "Get returned", e1)
	_, e2 := p.GetKeyed(kit.TypeS[0], "k1")
	vrt.Assert(errors.Is(e2, want), "C13.getkeyed_after_close", what, "GetKeyed returned", e2)
	_, e3 := p.GetGroup(kit.TypeS[0], "g1")
	vrt.Assert(errors.Is(e3, want), "C13.getgroup_after_close", what, "GetGroup returned", e3)
	sc, e4 := p.CreateScope(nil)
	vrt.Assert(errors.Is(e4, want) && sc == nil, "C13.createscope_after_close", what, "CreateScope returned", e4)
	_, e5 := godi.Resolve[*kit.S0](p)
	vrt.Assert(errors.Is(e5, want), "C13.resolve_after_close", what, "Resolve returned", e5)
	vrt.Assert(p.Close() == nil, "C13.reclose", what, "Close on a closed node returned an error")
}

// H_Closed (sequential half of C13): a scope tree of depth <= 3, one closing
// event (Close of a node, of an ancestor, of the provider, or cancellation of
// the context a scope was created with), then every operation on every node
// that must now be closed.
func H_Closed() {
	lifes := []int{kit.LSingleton, kit.LScoped, kit.LTransient}
	w := kit.PickWorld(1, lifes, []int{kit.IdPlain, kit.IdNamed, kit.IdGroup}, []int{0})
	c := godi.NewCollection()
	errs := w.Register(c)
	vrt.Assume(!addErrs(errs, 1))
	p, err := c.Build()
	vrt.Assume(err == nil)

	// node 1: scope of provider (own cancellable context), node 2: child of 1
	// (context derived from node 1's, own cancel), node 3: grandchild (nil ctx),
	// node 4: sibling scope of the provider
	ctx1, cancel1 := context.WithCancel(context.Background())
	s1, e := p.CreateScope(ctx1)
	vrt.Assume(e == nil)
	ctx2, cancel2 := context.WithCancel(s1.Context())
	s2, e := s1.CreateScope(ctx2)
	vrt.Assume(e == nil)
	s3, e := s2.CreateScope(nil)
	vrt.Assume(e == nil)
	s4, e := p.CreateScope(nil)
	vrt.Assume(e == nil)
	nodes := []godi.Provider{p, s1, s2, s3, s4}
	parent := []int{-1, 0, 1, 2, 0}
	// use the scopes before closing
	if vrt.Pick("warm", 0, 1) == 1 {
		for _, n := range nodes {
			resolveReal(n, w.Identities(0)[0])
		}
	}

	ev := vrt.Pick("event", 0, 6)
	closedRoot := -1
	switch ev {
	case 0, 1, 2, 3, 4:
		vrt.Cover("close_node")
		vrt.Assert(nodes[ev].Close() == nil, "C13.close_error", "Close returned an error")
		closedRoot = ev
	case 5:
		vrt.Cover("cancel_scope_ctx")
		cancel1()
		vrt.Quiesce()
		closedRoot = 1
	case 6:
		vrt.Cover("cancel_child_ctx")
		cancel2()
		vrt.Quiesce()
		closedRoot = 2
	}
	for k := range nodes {
		inSub := false
		for x := k; x >= 0; x = parent[x] {
			if x == closedRoot {
				inSub = true
			}
		}
		if inSub {
			useAll(nodes[k], k == 0, "node "+string(rune('0'+k)))
			if sc, ok := nodes[k].(godi.Scope); ok {
				vrt.Assert(sc.Context().Err() != nil, "C13.context_not_cancelled", "context of a closed scope is still live")
			}
		} else if k != 0 {
			// nodes outside the closed subtree keep working
			_, err := resolveReal(nodes[k], w.Identities(0)[0])
			vrt.Assert(err == nil, "C13.open_scope_broken", "a scope outside the closed subtree fails:", err)
			ch, err := nodes[k].CreateScope(nil)
			vrt.Assert(err == nil, "C13.open_scope_broken", "CreateScope outside the closed subtree fails:", err)
			if err == nil {
				ch.Close()
			}
		}
	}
	cancel1()
	cancel2()
	p.Close()
	vrt.Quiesce()
	useAll(p, true, "provider at end")
}

// H_CloseInCallback (overlap half of C13 without goroutines): a Close lands
// while an operation is inside a user callback - here literally: the
// constructor itself closes the scope (or its parent, or the provider) that
// is resolving it. The operation must return normally or with a disposed
// error; it must not panic.
func H_CloseInCallback() {
	life := []int{kit.LScoped, kit.LTransient}[vrt.Pick("life", 0, 1)]
	w := &kit.World{N: 2}
	w.Order = [kit.NS]int{0, 1, 2, 3}
	w.Regs[0] = kit.Reg{Present: true, Life: life, Form: kit.IdPlain, Variant: 0}
	// a scoped initializer, so that scope creation also runs a user callback
	w.Regs[1] = kit.Reg{Present: true, Life: kit.LScoped, Form: kit.IdVoid, Variant: 0}
	c := godi.NewCollection()
	errs := w.Register(c)
	vrt.Assume(!addErrs(errs, 2))
	p, err := c.Build()
	vrt.Assume(err == nil)
	s1, e := p.CreateScope(nil)
	vrt.Assume(e == nil)
	s2, e := s1.CreateScope(nil)
	vrt.Assume(e == nil)

	which := vrt.Pick("closes", 0, 2) // 0: the resolving scope, 1: its parent, 2: the provider
	op := vrt.Pick("op", 0, 3)        // 0/1: resolve in s2; 2: create a child of s2; 3: create a scope of the provider
	fired := false
	kit.OnCtor = func(slot int) {
		if fired || (op >= 2) != (slot == 1) {
			return
		}
		fired = true
		switch which {
		case 0:
			s2.Close()
		case 1:
			s1.Close()
		case 2:
			p.Close()
		}
	}
	var rerr error
	var val any
	var made godi.Scope
	panicked, pv := guard(func() {
		switch op {
		case 0:
			val, rerr = s2.Get(kit.TypeS[0])
		case 1:
			val, rerr = godi.Resolve[*kit.S0](s2)
		case 2:
			made, rerr = s2.CreateScope(nil)
		case 3:
			made, rerr = p.CreateScope(nil)
		}
	})
	if op == 3 && which != 2 {
		// closing a scope does not concern a sibling created from the provider
		vrt.Assert(!panicked && rerr == nil, "C13.unrelated_close_broke_creation", "CreateScope on the provider failed because an unrelated scope was closed:", rerr)
	}
	vrt.Cover("callback_closed")
	vrt.Assert(!panicked, "C13.overlap_panic", "operation overlapping a Close panicked:", pv)
	if !panicked {
		vrt.Assert(rerr == nil || isDisposed(rerr), "C13.overlap_error", "operation overlapping a Close returned", rerr)
		if rerr == nil && op < 2 {
			vrt.Assert(kit.InfoOf(val) != nil, "C13.overlap_half_initialised", "operation overlapping a Close returned no usable value")
		}
		if op >= 2 {
			vrt.Assert((rerr == nil) == (made != nil), "C13.overlap_half_initialised", "CreateScope returned neither a scope nor an error")
			if made != nil {
				// a scope handed out after its parent was closed must be closed itself (cascade)
				closedParent := (op == 2) || (op == 3 && which == 2)
				if closedParent {
					_, e := made.Get(kit.TypeS[0])
					vrt.Assert(isDisposed(e), "C13.orphan_scope", "CreateScope overlapping the Close of its parent handed out a live scope")
				}
				made.Close()
			}
		}
	}
	kit.OnCtor = nil
	s2.Close()
	s1.Close()
	p.Close()
	// the instance constructed during the overlap must not leak (C10)
	for _, in := range kit.Log {
		if disposable(in) {
			vrt.Assert(in.Closed == 1, "C10.overlap_leak", "instance constructed while its scope was being closed has close count", in.Closed)
		}
	}
}
