// Package cont holds the container harnesses: real godi collections,
// providers and scopes driven through the exported API on worlds drawn from
// the kit, with the kit's reference model as oracle.
package cont

import (
	"errors"
	"reflect"

	"github.com/junioryono/godi/v4"
	"github.com/junioryono/godi/v4/zzverif/kit"
	"github.com/junioryono/godi/v4/zzverif/vrt"
)

// profile selects the sub-space of worlds a harness run explores (bounds).
func profile(name string) (lifes, forms, variants []int) {
	all := []int{kit.LSingleton, kit.LScoped, kit.LTransient}
	switch vrt.Param(name, 0) {
	case 0: // identity forms x a few dependency shapes
		return all,
			[]int{kit.IdPlain, kit.IdNamed, kit.IdGroup, kit.IdAs, kit.IdAsGroup, kit.IdAs2, kit.IdInstance, kit.IdMulti, kit.IdResObj, kit.IdPlainNoErr},
			[]int{0, 1, 7}
	case 1: // dependency shapes on plain identities
		return all, []int{kit.IdPlain}, []int{0, 1, 2, 3, 4, 5, 6, 9, 10, 11, 15, 26}
	case 2: // groups and interfaces
		return all, []int{kit.IdPlain, kit.IdGroup, kit.IdAs, kit.IdAsGroup, kit.IdAsNamed}, []int{0, 5, 7, 8, 12, 14, 16, 17}
	case 4: // multi-output forms incl. those godi cannot construct today
		return all, []int{kit.IdPlain, kit.IdMulti, kit.IdResObj, kit.IdResObj2, kit.IdMultiNamed, kit.IdMultiGroup}, []int{0, 1, 11}
	case 7: // one interface type both as an unkeyed service and as the element type of a group, and consumers of the group
		return all, []int{kit.IdPlain, kit.IdAs, kit.IdAsGroup}, []int{0, 8}
	case 3: // initializers
		return all, []int{kit.IdPlain, kit.IdVoid, kit.IdVoidErr, kit.IdNamed}, []int{0, 1, 3, 4, 11}
	}
	panic("bad profile")
}

func isNilPointer(v any) bool {
	if v == nil {
		return false
	}
	rv := reflect.ValueOf(v)
	return rv.Kind() == reflect.Ptr && rv.IsNil()
}

func addErrs(errs [kit.NS]error, n int) bool {
	for r := 0; r < n; r++ {
		if errs[r] != nil {
			return true
		}
	}
	return false
}

// sane prunes worlds outside what the history harnesses are about: forms that
// only make sense for some lifetimes.
func sane(w *kit.World) bool {
	for r := 0; r < w.N; r++ {
		g := w.Regs[r]
		if g.Form == kit.IdInstance && g.Life != kit.LSingleton {
			return false // a registered value is shared by construction
		}
		if w.IsVoid(r) && g.Life != kit.LScoped && !(g.Life == kit.LSingleton && vrt.Param("singleton_init", 0) == 1) {
			return false // initializers are a scoped notion; singleton_init=1 also admits functions without a service result registered as singletons (run once, at Build)
		}
		if g.Form == kit.IdAs2 && r > 1 {
			return false // S2, S3 do not implement I1
		}
	}
	return true
}

type node struct {
	p godi.Provider // provider or scope
}

func resolveReal(p godi.Provider, id kit.Ident) (vals []any, err error) {
	switch {
	case id.Group != "":
		return p.GetGroup(id.RType(), id.Group)
	case id.Key != "":
		v, err := p.GetKeyed(id.RType(), id.Key)
		return []any{v}, err
	}
	v, err := p.Get(id.RType())
	return []any{v}, err
}

// buildable: the model sees no reason for Build to fail.
func buildable(w *kit.World) bool {
	if w.Cyclic() {
		return false
	}
	if c, _ := w.Conflict(); c {
		return false
	}
	if any, _, _ := w.MissingDeps(); any {
		return false
	}
	return true
}

// knownBuildDefects marks the carve-outs of open findings that make Build fail
// (or behave order-dependently) on worlds the model accepts.
func knownBuildDefects(w *kit.World) {
	grpSingleton := false
	initSingleton := false
	for r := 0; r < w.N; r++ {
		for _, e := range w.DepsOf(r) {
			for _, t := range e.Targets {
				if e.Group && w.Regs[r].Life == kit.LSingleton && w.Regs[t].Life == kit.LSingleton {
					grpSingleton = true
				}
				if w.IsVoid(r) && w.Regs[r].Life == kit.LScoped && w.Regs[t].Life == kit.LSingleton {
					initSingleton = true
				}
			}
		}
	}
	vrt.Finding("KF-C06-group-order", grpSingleton)
	vrt.Finding("KF-C08-init-singleton", initSingleton)
}

func step(m *kit.Model, nodes []node, k int, id kit.Ident, ctx string) {
	want, ok := m.Resolve(id, k)
	var vals []any
	var err error
	if ctx == "sweep2" {
		// the generic helpers Resolve / ResolveKeyed / ResolveGroup instead of Get*
		vals, err = kit.GenericResolve(nodes[k].p, id.Type, id.Key, id.Group)
	} else {
		vals, err = resolveReal(nodes[k].p, id)
	}
	if !ok {
		vrt.Assert(errors.Is(err, godi.ErrServiceNotFound), "C04.phantom_identity", ctx, "identity not registered but resolution did not report not-found")
		return
	}
	vrt.Assert(err == nil, "C04.resolve_failed", ctx, "resolution of a registered identity failed:", err)
	if err != nil {
		return
	}
	vrt.Assert(len(vals) == len(want), "C04.group_size", ctx, "got", len(vals), "want", len(want))
	if len(vals) != len(want) {
		return
	}
	for j := range want {
		if f := m.W.Regs[want[j].Reg].Form; want[j].Aux && kit.AuxNilMask&(1<<want[j].Reg) != 0 && (f == kit.IdMulti || f == kit.IdMultiNamed || f == kit.IdMultiGroup) {
			// the constructor returned a nil pointer for this output: that is the value
			vrt.Assert(isNilPointer(vals[j]), "C04.nil_output", ctx, "the second output of registration", want[j].Reg, "is a nil pointer but resolution returned something else")
			continue
		}
		m.Bind(want[j], vals[j], ctx)
	}
	// a keyed request with the empty key: either no such registration, or - if
	// the container reads "" as "no key" - exactly what the unkeyed request
	// yields under the lifetime rules; never a third thing
	if id.Group == "" && id.Key == "" && ctx == "sweep2" {
		v, kerr := nodes[k].p.GetKeyed(id.RType(), "")
		if kerr == nil {
			if w2, ok2 := m.Resolve(id, k); ok2 && len(w2) == 1 {
				m.Bind(w2[0], v, ctx+"/empty key")
			}
		} else {
			vrt.Assert(errors.Is(kerr, godi.ErrServiceNotFound), "C04.empty_key_error", ctx, "GetKeyed with an empty key failed with something else than not-found:", kerr)
		}
	}
}

// H_Hist: a world, a fixed scope tree (provider, scope, its child, a sibling
// scope), L symbolic resolutions followed by a sweep that resolves every
// identity at every node; every observed object is bound to the model.
func H_Hist() {
	n := vrt.Param("n", 2)
	nn := vrt.Param("nodes", 3)
	L := vrt.Param("L", 1)
	lifes, forms, variants := profile("profile")
	w := kit.PickWorld(n, lifes, forms, variants)
	vrt.Assume(sane(w))
	vrt.Assume(!w.Duplicate())
	vrt.Assume(buildable(w))
	knownBuildDefects(w)
	as2 := false
	for r := 0; r < n; r++ {
		if w.Regs[r].Form == kit.IdAs2 {
			as2 = true
		}
	}
	vrt.Finding("KF-C01-multi-alias", as2)
	multiOpt := false
	for r := 0; r < n; r++ {
		if f := w.Regs[r].Form; f == kit.IdMultiNamed || f == kit.IdMultiGroup {
			multiOpt = true
		}
	}
	vrt.Finding("KF-C04-multi-options", multiOpt)
	if vrt.Param("as2", 1) == 0 {
		vrt.Assume(!as2) // the alias rule is C01's; other properties leave it out
	}

	if vrt.Param("auxnil", 0) == 1 {
		kit.AuxNilMask = vrt.Pick("auxnil", 0, 1<<n-1)
	}
	c := godi.NewCollection()
	errs := w.Register(c)
	vrt.Assume(!addErrs(errs, n))
	p, err := c.Build()
	if err != nil {
		vrt.Cover("build_failed")
		return // acceptance is C08's subject
	}
	vrt.Cover("built")
	m := kit.NewModel(w)
	m.Build()
	m.CheckCounts("after Build")
	// twin=1: a second provider is built from the same collection and stays alive
	// while the first one is used; it has instances of its own
	var p2 godi.Provider
	var m2 *kit.Model
	if vrt.Param("twin", 0) == 1 {
		for r := 0; r < n; r++ {
			vrt.Assume(w.Regs[r].Form != kit.IdInstance) // a registered value is shared by construction
		}
		var err2 error
		p2, err2 = c.Build()
		vrt.Assert(err2 == nil, "C06.verdict_differs", "a second Build of the same collection failed:", err2)
		if err2 != nil {
			return
		}
		vrt.Cover("twin_built")
		m2 = m.Twin()
		m2.Build()
		m.Extra = m2.Count
		m.CheckCounts("after the second Build")
	}

	nodes := []node{{p}}
	parent := []int{-1, 0, 1, 0}
	for k := 1; k < nn; k++ {
		sc, err := nodes[parent[k]].p.CreateScope(nil)
		vrt.Assert(err == nil, "C08.scope_creation_failed", "CreateScope failed on a valid world:", err)
		if err != nil {
			return
		}
		nodes = append(nodes, node{sc})
		m.NewScope()
	}
	m.CheckCounts("after scope creation")

	var ids []kit.Ident
	for r := 0; r < n; r++ {
		ids = append(ids, w.Identities(r)...)
	}
	if len(ids) == 0 {
		return
	}
	for s := 0; s < L; s++ {
		k := vrt.Pick("node"+string(rune('0'+s)), 0, nn-1)
		x := vrt.Pick("id"+string(rune('0'+s)), 0, len(ids)-1)
		step(m, nodes, k, ids[x], "history")
	}
	vrt.Cover("history_done")
	for k := 0; k < nn; k++ {
		for _, id := range ids {
			step(m, nodes, k, id, "sweep")
		}
	}
	// a second sweep: nothing new may be constructed except transients
	for k := nn - 1; k >= 0; k-- {
		for _, id := range ids {
			step(m, nodes, k, id, "sweep2")
		}
	}
	m.CheckCounts("after history")
	if p2 != nil {
		// the twin hands out its own instances, never those of the first provider
		for _, id := range ids {
			step(m2, []node{{p2}}, 0, id, "twin")
		}
		for _, id := range ids {
			step(m, nodes, 0, id, "after twin")
		}
		p2.Close()
		for _, id := range ids {
			step(m, nodes, 0, id, "after twin closed")
		}
	}
	vrt.Assert(kit.Untouched, "C04.ignored_field_touched", "a field tagged inject:\"-\" or an unexported field was populated")
	for k := nn - 1; k >= 1; k-- {
		nodes[k].p.Close()
	}
	p.Close()
}
