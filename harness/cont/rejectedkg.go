package cont

import (
	"reflect"

	"github.com/junioryono/godi/v4"
	"github.com/junioryono/godi/v4/zzverif/vrt"
)

// Result objects whose first field carries a name, a group, or both, and whose
// second field collides with an existing registration.
type rkA struct{}
type rkB struct{}
type rkOutName struct {
	godi.Out
	A *rkA `name:"x"`
	B *rkB
}
type rkOutGroup struct {
	godi.Out
	A *rkA `group:"g"`
	B *rkB
}
type rkOutBoth struct {
	godi.Out
	A *rkA `name:"x" group:"g"`
	B *rkB
}

func rkNewName() rkOutName   { return rkOutName{A: &rkA{}, B: &rkB{}} }
func rkNewGroup() rkOutGroup { return rkOutGroup{A: &rkA{}, B: &rkB{}} }
func rkNewBoth() rkOutBoth   { return rkOutBoth{A: &rkA{}, B: &rkB{}} }
func rkNewB() *rkB           { return &rkB{} }
func rkNewA() *rkA           { return &rkA{} }

// H_RejectedKeyGroup (C17): a multi-output registration is rejected on its
// SECOND identity (taken already); its first identity is tagged with a name, a
// group, or both, and the registration may carry a Group / Name option of its
// own. A rejected Add changes nothing: every query answers as before, and the
// first identity can still be registered afterwards.
func H_RejectedKeyGroup() {
	shape := vrt.Pick("shape", 0, 2)
	opt := vrt.Pick("opt", 0, 2) // none, Group("g"), Name("x")
	c := godi.NewCollection()
	vrt.Assume(c.AddSingleton(rkNewB) == nil)
	tA := reflect.TypeOf((*rkA)(nil))
	snapshot := func() [5]int {
		b := func(x bool) int {
			if x {
				return 1
			}
			return 0
		}
		return [5]int{c.Count(), len(c.ToSlice()), b(c.Contains(tA)), b(c.ContainsKeyed(tA, "x")), b(c.ContainsKeyed(tA, 1))}
	}
	before := snapshot()
	ctor := []any{rkNewName, rkNewGroup, rkNewBoth}[shape]
	var opts []godi.AddOption
	switch opt {
	case 1:
		opts = append(opts, godi.Group("g"))
	case 2:
		opts = append(opts, godi.Name("x"))
	}
	err := c.AddSingleton(ctor, opts...)
	vrt.Assert(err != nil, "C17.collision_accepted", "a registration whose second identity is taken was accepted")
	if err == nil {
		return
	}
	vrt.Cover("rejected")
	after := snapshot()
	vrt.Assert(before == after, "C17.rejected_add_changed_registry", "a rejected registration changed what the collection answers (Count, len(ToSlice), Contains, ContainsKeyed x, ContainsKeyed 1): before", before, "after", after)
	// the identities of the rejected registration are still free
	e1 := c.AddSingleton(rkNewA, godi.Name("x"))
	vrt.Assert(e1 == nil, "C17.rejected_add_blocks_identity", "after a rejected registration its first identity cannot be registered:", e1)
	p, berr := c.Build()
	vrt.Assert(berr == nil, "C17.build_after_rejected_add", "Build failed after a rejected registration:", berr)
	if berr == nil {
		vals, gerr := p.GetGroup(tA, "g")
		vrt.Assert(gerr == nil && len(vals) == 0, "C17.rejected_add_in_group", "group g holds", len(vals), "members of a rejected registration", gerr)
		p.Close()
	}
}
