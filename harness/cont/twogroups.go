package cont

import (
	"reflect"

	"github.com/junioryono/godi/v4"
	"github.com/junioryono/godi/v4/zzverif/kit"
	"github.com/junioryono/godi/v4/zzverif/vrt"
)

// Members of two value groups with ONE element type.
type tgI interface{ tg() *tgS }
type tgS struct{ reg, seq int }

func (s *tgS) tg() *tgS { return s }

var (
	tgCalls [3]int
	tgSeq   int
)

func tgMake(r int) tgI { tgCalls[r]++; tgSeq++; return &tgS{r, tgSeq} }
func tgNew0() tgI      { return tgMake(0) }
func tgNew1() tgI      { return tgMake(1) }
func tgNew2() tgI      { return tgMake(2) }

// tgNest is registration 2 in its nested form: a member of g1 that itself
// consumes group g2 (same element type).
type TgNestIn struct {
	godi.In
	Inner []tgI `group:"g2"`
}

var tgNestGot [][]tgI

func tgNew2Nested(in TgNestIn) tgI {
	tgNestGot = append(tgNestGot, in.Inner)
	return tgMake(2)
}

type TgIn struct {
	godi.In
	G1 []tgI `group:"g1"`
	G2 []tgI `group:"g2"`
}
type TgProbe struct{ In TgIn }

func newTgProbe(in TgIn) *TgProbe { return &TgProbe{In: in} }

// H_TwoGroups (C04, and the lifetime rules C01 / C02 / C03 per member): three
// registrations of one element type, each a member of group "g1" or "g2"
// (symbolic) with a symbolic lifetime. Both groups are resolved repeatedly in
// two scopes - directly and through a consumer with one field per group -:
// each group holds exactly its own members, in registration order, each built
// by its own constructor, each following its own lifetime rule. Members of
// different groups sit at equal positions, so anything keyed by (type,
// position) alone would mix them up.
func H_TwoGroups() {
	tgCalls, tgSeq, tgNestGot = [3]int{}, 0, nil
	ctors := []any{tgNew0, tgNew1, tgNew2}
	// nested=1: registration 2, a member of g1, consumes group g2 (whose members
	// are then among registrations 0 and 1): resolving g1 resolves g2 half-way
	nested := vrt.Pick("nested", 0, 1)
	if nested == 1 {
		ctors[2] = tgNew2Nested
	}
	var grp, life [3]int
	c := godi.NewCollection()
	for r := 0; r < 3; r++ {
		grp[r] = vrt.Pick("grp"+string(rune('0'+r)), 0, 1)
		life[r] = vrt.Pick("life"+string(rune('0'+r)), 0, 2)
		if nested == 1 && r == 2 {
			vrt.Assume(grp[2] == 0)
			// a member of g1 holding members of g2: not longer-lived than they are
			for q := 0; q < 2; q++ {
				if grp[q] == 1 {
					vrt.Assume(!(life[q] == kit.LScoped && life[2] != kit.LScoped))
				}
			}
		}
		err := addLife(c, life[r], ctors[r], godi.Group([]string{"g1", "g2"}[grp[r]]))
		vrt.Assume(err == nil)
	}
	vrt.Assume(c.AddScoped(newTgProbe) == nil)
	p, err := c.Build()
	vrt.Assert(err == nil, "C08.valid_rejected", "Build failed on two groups of one element type:", err)
	if err != nil {
		return
	}
	s1, ea := p.CreateScope(nil)
	s2, eb := p.CreateScope(nil)
	vrt.Assume(ea == nil && eb == nil)
	nodes := []godi.Provider{s1, s2}
	tI := reflect.TypeOf((*tgI)(nil)).Elem()
	members := func(g int) (out []int) {
		for r := 0; r < 3; r++ {
			if grp[r] == g {
				out = append(out, r)
			}
		}
		return
	}
	var single [3]*tgS
	var scoped [2][3]*tgS
	seen := map[*tgS]bool{}
	occurrences := map[*tgS]int{} // every place a transient instance was handed out to
	check := func(k, g int, got []tgI, how string) {
		want := members(g)
		vrt.Assert(len(got) == len(want), "C04.group_size", how, "node", k, "group", g, "has", len(got), "members, registered", len(want))
		if len(got) != len(want) {
			return
		}
		for j, r := range want {
			if got[j] == nil {
				vrt.Assert(false, "C04.wrong_producer", how, "nil group member")
				continue
			}
			x := got[j].tg()
			if life[x.reg] == kit.LTransient {
				occurrences[x]++
			}
			vrt.Assert(x.reg == r, "C04.wrong_producer", how, "node", k, "group", g, "position", j, "holds an instance built by registration", x.reg, "instead of", r)
			if x.reg != r {
				continue
			}
			pre := lifeName(life[r])
			switch life[r] {
			case kit.LSingleton:
				vrt.Assert(single[r] == nil || single[r] == x, pre+".identity", how, "a second instance of singleton member", r)
				single[r] = x
			case kit.LScoped:
				vrt.Assert(scoped[k][r] == nil || scoped[k][r] == x, pre+".identity", how, "node", k, ": a second instance of scoped member", r, "in one scope")
				vrt.Assert(scoped[1-k][r] != x, pre+".shared", how, "scoped member", r, "shared between scopes")
				scoped[k][r] = x
			default:
				vrt.Assert(!seen[x], pre+".identity", how, "transient member", r, "handed out twice")
				seen[x] = true
			}
		}
	}
	direct := func(k, g int) {
		vals, err := nodes[k].GetGroup(tI, []string{"g1", "g2"}[g])
		vrt.Assert(err == nil, "C04.resolve_failed", "node", k, "group", g, ":", err)
		if err != nil {
			return
		}
		got := make([]tgI, len(vals))
		for j := range vals {
			got[j], _ = vals[j].(tgI)
		}
		check(k, g, got, "direct")
	}
	first := vrt.Pick("first", 0, 1)
	for k := 0; k < 2; k++ {
		direct(k, first)
		direct(k, 1-first)
		pv, err := nodes[k].Get(reflect.TypeOf((*TgProbe)(nil)))
		vrt.Assert(err == nil, "C04.resolve_failed", "consumer of both groups does not resolve:", err)
		if err == nil {
			in := pv.(*TgProbe).In
			check(k, 0, in.G1, "injected")
			check(k, 1, in.G2, "injected")
		}
		direct(k, first)
	}
	// what the nested member received for g2: exactly g2's members, in order, each
	// following its own lifetime rule (bound through the same tables)
	if nested == 1 {
		vrt.Cover("nested_resolved")
		for _, got := range tgNestGot {
			want := members(1)
			vrt.Assert(len(got) == len(want), "C04.group_size", "the nested member received", len(got), "members of g2, registered", len(want))
			for j := 0; j < len(got) && j < len(want); j++ {
				if got[j] == nil {
					vrt.Assert(false, "C04.wrong_producer", "nil member inside the nested group")
					continue
				}
				if x := got[j].tg(); life[x.reg] == kit.LTransient {
					occurrences[x]++
				}
				vrt.Assert(got[j].tg().reg == want[j], "C04.wrong_producer", "the nested member's view of g2 holds an instance of registration", got[j].tg().reg, "at position", j, "instead of", want[j])
			}
		}
	}
	for x, n := range occurrences {
		vrt.Assert(n == 1, "C03.identity", "a transient instance of registration", x.reg, "was handed out at", n, "places")
	}
	// constructor counts: singletons once, scoped once per scope
	for r := 0; r < 3; r++ {
		switch life[r] {
		case kit.LSingleton:
			vrt.Assert(tgCalls[r] == 1, "C01.ctor_count", "singleton member", r, "constructed", tgCalls[r], "times")
		case kit.LScoped:
			vrt.Assert(tgCalls[r] == 2, "C02.ctor_count", "scoped member", r, "constructed", tgCalls[r], "times in two scopes")
		}
	}
	vrt.Cover("resolved")
	s2.Close()
	s1.Close()
	p.Close()
}
