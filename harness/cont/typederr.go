package cont

import (
	"errors"
	"reflect"

	"github.com/junioryono/godi/v4"
	"github.com/junioryono/godi/v4/zzverif/kit"
	"github.com/junioryono/godi/v4/zzverif/vrt"
)

// Constructors whose last result is a CONCRETE type implementing error.
type teSvc struct{ n int }

type tePtrErr struct{ Code int }  // pointer receiver: nil means success
func (e *tePtrErr) Error() string { return "pointer-typed constructor error" }

type teValErr struct{ Code int } // value receiver: cannot be nil, zero means success
func (e teValErr) Error() string { return "value-typed constructor error" }

type teIfaceErr interface { // a custom interface embedding error
	error
	Code() int
}
type teIfaceImpl struct{ c int }

func (e *teIfaceImpl) Error() string { return "custom-interface constructor error" }
func (e *teIfaceImpl) Code() int     { return e.c }

var (
	teCalls  int
	teFailAt int // the invocation that fails (0 = none)
)

func teFails() bool { teCalls++; return teCalls == teFailAt }

func teNewPtr() (*teSvc, *tePtrErr) {
	if teFails() {
		return nil, &tePtrErr{Code: 7}
	}
	return &teSvc{teCalls}, nil
}
func teNewVal() (*teSvc, teValErr) {
	if teFails() {
		return nil, teValErr{Code: 7}
	}
	return &teSvc{teCalls}, teValErr{}
}
func teNewIface() (*teSvc, teIfaceErr) {
	if teFails() {
		return nil, &teIfaceImpl{7}
	}
	return &teSvc{teCalls}, nil
}

// H_TypedErrors (C15): the constructor's last result is declared with a concrete
// pointer type, a struct type with a value receiver, or a custom interface that
// embeds error - all implement error, so godi treats the result as the error
// result. One invocation (symbolic) fails. No call may panic; the failure is
// reported as an error from which the constructor's own error is reachable with
// errors.As; nothing is cached; the retry invokes the constructor again and
// yields a value; a success is a success.
func H_TypedErrors() {
	teCalls = 0
	form := vrt.Pick("form", 0, 2)
	life := vrt.Pick("life", 0, 2)
	teFailAt = vrt.Pick("failat", 0, 2)
	ctor := []any{teNewPtr, teNewVal, teNewIface}[form]
	ownErr := func(err error) bool {
		var pe *tePtrErr
		var ve teValErr
		var ie teIfaceErr
		switch form {
		case 0:
			return errors.As(err, &pe) && pe.Code == 7
		case 1:
			return errors.As(err, &ve) && ve.Code == 7
		}
		return errors.As(err, &ie) && ie.Code() == 7
	}
	c := godi.NewCollection()
	var addErr error
	pa, pv := guard(func() { addErr = addLife(c, life, ctor) })
	vrt.Assert(!pa, "C15.panic", "registration panicked:", pv)
	if pa || addErr != nil {
		// rejecting such a constructor at registration is a classifiable error too
		vrt.Cover("rejected")
		return
	}
	var p godi.Provider
	var err error
	build := func() {
		pb, pbv := guard(func() { p, err = c.Build() })
		vrt.Assert(!pb, "C15.panic", "Build panicked:", pbv)
		if pb {
			err = errors.New("panicked")
		}
	}
	before := teCalls
	build()
	if life == kit.LSingleton {
		vrt.Assert(teCalls == before+1, "C01.ctor_count", "Build invoked the singleton constructor", teCalls-before, "times")
		if teFailAt == 1 {
			vrt.Cover("build_failed")
			vrt.Assert(err != nil, "C15.error_swallowed", "the singleton constructor failed but Build succeeded")
			if err == nil {
				return
			}
			vrt.Assert(ownErr(err), "C15.cause_lost", "the constructor's own error is not reachable from the Build error:", err)
			var be *godi.BuildError
			vrt.Assert(errors.As(err, &be), "C15.unclassified", "Build failure is not a BuildError:", err)
			before = teCalls
			build() // the retry invokes the constructor again
			vrt.Assert(err == nil, "C15.failure_cached", "the second Build failed as well:", err)
			vrt.Assert(teCalls == before+1, "C15.failure_cached", "the second Build did not invoke the constructor again")
			if err != nil {
				return
			}
		}
	}
	vrt.Assert(err == nil, "C15.success_reported_as_failure", "Build failed although no constructor failed:", err)
	if err != nil {
		return
	}
	sc, e := p.CreateScope(nil)
	vrt.Assume(e == nil)
	tS := reflect.TypeOf((*teSvc)(nil))
	for round := 0; round < 3; round++ {
		var v any
		var rerr error
		before := teCalls
		pr, prv := guard(func() { v, rerr = sc.Get(tS) })
		vrt.Assert(!pr, "C15.panic", "resolution panicked:", prv)
		if pr {
			return
		}
		failedNow := teCalls > before && teCalls == teFailAt
		if failedNow {
			vrt.Cover("resolution_failed")
			vrt.Assert(rerr != nil, "C15.error_swallowed", "round", round, ": the constructor failed but the resolution reported success")
			if rerr != nil {
				vrt.Assert(ownErr(rerr), "C15.cause_lost", "the constructor's own error is not reachable from the resolution error:", rerr)
			}
			continue
		}
		vrt.Assert(rerr == nil, "C15.success_reported_as_failure", "round", round, ": resolution failed although the constructor succeeded:", rerr)
		if rerr == nil {
			s, _ := v.(*teSvc)
			vrt.Assert(s != nil, "C15.nil_value", "round", round, ": resolution returned no value and no error (a failure was cached as a value?)")
		}
	}
	vrt.Cover("resolved")
	sc.Close()
	p.Close()
}
