package cont

import (
	"errors"

	"github.com/junioryono/godi/v4"
	"github.com/junioryono/godi/v4/zzverif/kit"
	"github.com/junioryono/godi/v4/zzverif/vrt"
)

// an entry of a module, as data
type entry struct {
	kind int
	slot int
}

const (
	eAdd = iota
	eAddKeyed
	eFail    // a registration that is rejected (nil constructor)
	eFailDup // a registration rejected as duplicate of slot 0 (only fails if slot 0 is registered)
	eNil
	eRemove0      // Remove[*S0]
	eRemoveKeyed1 // RemoveKeyed[*S1]("k1")
	eAddAs        // AddSingleton(S2 ctor, As[I0])
	eAddAsKeyed   // AddSingleton(S3 ctor, As[I0], Name("k1"))
	eRemoveI0     // Remove[I0]  (an interface type parameter)
	eRemoveKeyedI // RemoveKeyed[I0]("k1")
	eFailOpts     // a registration rejected for its options (Name together with Group)
	eFailNilOpts  // nil constructor AND invalid options
	numEntryKinds
)

func (e entry) option() godi.ModuleOption {
	switch e.kind {
	case eAdd:
		return godi.AddSingleton(kit.TabC[e.slot][0])
	case eAddKeyed:
		return godi.AddScoped(kit.TabC[1][0], godi.Name("k1"))
	case eFail:
		return godi.AddSingleton(nil)
	case eFailDup:
		return godi.AddTransient(kit.TabC[0][0])
	case eNil:
		return nil
	case eRemove0:
		return godi.Remove[*kit.S0]()
	case eRemoveKeyed1:
		return godi.RemoveKeyed[*kit.S1]("k1")
	case eAddAs:
		return godi.AddSingleton(kit.TabC[2][0], godi.As[kit.I0]())
	case eAddAsKeyed:
		return godi.AddSingleton(kit.TabC[3][0], godi.As[kit.I0](), godi.Name("k1"))
	case eRemoveI0:
		return godi.Remove[kit.I0]()
	case eRemoveKeyedI:
		return godi.RemoveKeyed[kit.I0]("k1")
	case eFailOpts:
		return godi.AddSingleton(kit.TabC[e.slot][0], godi.Name("k1"), godi.Group("g1"))
	case eFailNilOpts:
		return godi.AddSingleton(nil, godi.Name("k1"), godi.Group("g1"))
	}
	panic("bad entry")
}

// apply issues the same call directly on the collection.
func (e entry) apply(c godi.Collection) error {
	switch e.kind {
	case eAdd:
		return c.AddSingleton(kit.TabC[e.slot][0])
	case eAddKeyed:
		return c.AddScoped(kit.TabC[1][0], godi.Name("k1"))
	case eFail:
		return c.AddSingleton(nil)
	case eFailDup:
		return c.AddTransient(kit.TabC[0][0])
	case eNil:
		return nil
	case eRemove0:
		c.Remove(kit.TypeS[0])
		return nil
	case eRemoveKeyed1:
		c.RemoveKeyed(kit.TypeS[1], "k1")
		return nil
	case eAddAs:
		return c.AddSingleton(kit.TabC[2][0], godi.As[kit.I0]())
	case eAddAsKeyed:
		return c.AddSingleton(kit.TabC[3][0], godi.As[kit.I0](), godi.Name("k1"))
	case eRemoveI0:
		c.Remove(kit.TypeI0)
		return nil
	case eRemoveKeyedI:
		c.RemoveKeyed(kit.TypeI0, "k1")
		return nil
	case eFailOpts:
		return c.AddSingleton(kit.TabC[e.slot][0], godi.Name("k1"), godi.Group("g1"))
	case eFailNilOpts:
		return c.AddSingleton(nil, godi.Name("k1"), godi.Group("g1"))
	}
	panic("bad entry")
}

// H_Modules (C20): a module tree of depth <= 3 with symbolic entries vs. the
// flattened direct calls on a twin collection.
func H_Modules() {
	// entries e0..e3 in flattened order; depth[i] = how many named modules enclose e_i
	var es [4]entry
	for i := range es {
		es[i] = entry{kind: vrt.Pick("kind"+string(rune('0'+i)), 0, numEntryKinds-1), slot: []int{0, 2, 3, 0}[i]}
		if i == 3 && es[i].kind == eAdd {
			es[i].slot = 3
			// two plain adds of the same slot would make the later one a duplicate: fine, that is a failing entry too
		}
	}
	shape := vrt.Pick("shape", 0, 5)
	// shape 0: m0[e0, m1[e1, m2[e2]], e3]   depths 1,2,3,1
	// shape 1: m0[e0, e1, e2, e3]            depths 1,1,1,1
	// shape 2: AddModules(e0, m1[e1, e2], nil, e3)   depths 0,1,1,0 (bare entries at top level)
	var depth [4]int
	var names [4][]string
	c1 := godi.NewCollection()
	var err1 error
	// the option lists are built once, as slices, and applied twice (to c1 and,
	// further down, to a third collection): applying a module tree must not
	// alter the lists it was given
	var top []godi.ModuleOption
	switch shape {
	case 0:
		depth = [4]int{1, 2, 3, 1}
		names = [4][]string{{"m0"}, {"m0", "m1"}, {"m0", "m1", "m2"}, {"m0"}}
		m2 := godi.NewModule("m2", []godi.ModuleOption{es[2].option()}...)
		m1 := godi.NewModule("m1", []godi.ModuleOption{es[1].option(), m2}...)
		top = []godi.ModuleOption{godi.NewModule("m0", []godi.ModuleOption{es[0].option(), m1, es[3].option()}...)}
	case 1:
		depth = [4]int{1, 1, 1, 1}
		names = [4][]string{{"m0"}, {"m0"}, {"m0"}, {"m0"}}
		top = []godi.ModuleOption{godi.NewModule("m0", []godi.ModuleOption{es[0].option(), es[1].option(), es[2].option(), es[3].option()}...)}
	case 2:
		depth = [4]int{0, 1, 1, 0}
		names = [4][]string{nil, {"m1"}, {"m1"}, nil}
		top = []godi.ModuleOption{es[0].option(), godi.NewModule("m1", []godi.ModuleOption{es[1].option(), nil, es[2].option()}...), nil, es[3].option()}
	case 3: // a list of exactly one (possibly nil) bare entry
		names = [4][]string{nil, nil, nil, nil}
		vrt.Assume(es[1].kind == eNil && es[2].kind == eNil && es[3].kind == eNil)
		top = []godi.ModuleOption{es[0].option()}
	case 4: // a list of exactly one module holding exactly one (possibly nil) entry
		depth = [4]int{1, 0, 0, 0}
		names = [4][]string{{"m0"}, nil, nil, nil}
		vrt.Assume(es[1].kind == eNil && es[2].kind == eNil && es[3].kind == eNil)
		top = []godi.ModuleOption{godi.NewModule("m0", []godi.ModuleOption{es[0].option()}...)}
	case 5: // the empty list
		vrt.Assume(es[0].kind == eNil && es[1].kind == eNil && es[2].kind == eNil && es[3].kind == eNil)
		top = nil
	}
	var panicked bool
	var pv any
	panicked, pv = guard(func() { err1 = c1.AddModules(top...) })
	vrt.Assert(!panicked, "C20.panic", "AddModules panicked:", pv)
	if panicked {
		return
	}
	// the twin: direct calls, left to right, stop at the first failure
	c2 := godi.NewCollection()
	var err2 error
	failedAt := -1
	for i := range es {
		if err2 = es[i].apply(c2); err2 != nil {
			failedAt = i
			break
		}
	}
	vrt.Trace("shape=%d failedAt=%d err1=%v", shape, failedAt, err1 != nil)
	vrt.Assert((err1 != nil) == (err2 != nil), "C20.verdict_differs", "AddModules returned", err1, "the direct calls", err2)
	if err1 != nil && err2 != nil {
		vrt.Cover("failed")
		// wrapped once per enclosing named module, outermost first
		var chain []string
		var cur error = err1
		for cur != nil {
			if me, ok := cur.(godi.ModuleError); ok {
				chain = append(chain, me.Module)
				cur = me.Cause
				continue
			}
			if me, ok := cur.(*godi.ModuleError); ok {
				chain = append(chain, me.Module)
				cur = me.Cause
				continue
			}
			break
		}
		want := names[failedAt]
		same := len(chain) == len(want)
		for i := 0; same && i < len(want); i++ {
			same = chain[i] == want[i]
		}
		vrt.Assert(same, "C20.wrapping", "module error chain", chain, "want", want, "depth", depth[failedAt])
		// the original cause is still reachable
		var me godi.ModuleError
		vrt.Assert(errors.As(err1, &me) == (len(want) > 0), "C20.module_error_as", "errors.As(ModuleError) =", errors.As(err1, &me))
		// whatever the cause is, it is classified alike through the module wrappers and directly
		{
			var r1, r2 *godi.RegistrationError
			var v1, v2 *godi.ValidationError
			var a1, a2 *godi.AlreadyRegisteredError
			same := errors.Is(err1, godi.ErrConstructorNil) == errors.Is(err2, godi.ErrConstructorNil) &&
				errors.As(err1, &r1) == errors.As(err2, &r2) &&
				errors.As(err1, &v1) == errors.As(err2, &v2) &&
				errors.As(err1, &a1) == errors.As(err2, &a2)
			vrt.Assert(same, "C20.cause_class_differs", "the failure of entry", failedAt, "is classified differently through modules (", err1, ") and directly (", err2, ")")
		}
		if k := es[failedAt].kind; k == eFailOpts || k == eFailNilOpts {
			vrt.Cover("failed_on_options")
		} else if es[failedAt].kind == eFail {
			vrt.Assert(errors.Is(err1, godi.ErrConstructorNil), "C20.cause_lost", "original cause not reachable through the module wrappers:", err1)
		} else if es[failedAt].kind != eAddAs && es[failedAt].kind != eAddAsKeyed || true {
			var ar *godi.AlreadyRegisteredError
			vrt.Assert(errors.As(err1, &ar), "C20.cause_lost", "AlreadyRegisteredError not reachable through the module wrappers:", err1)
		}
	} else {
		vrt.Cover("succeeded")
	}
	// indistinguishable collections ...
	for _, t := range []int{0, 1, 2, 3} {
		vrt.Assert(c1.Contains(kit.TypeS[t]) == c2.Contains(kit.TypeS[t]), "C20.contains_differs", "Contains differs for slot", t)
		vrt.Assert(c1.ContainsKeyed(kit.TypeS[t], "k1") == c2.ContainsKeyed(kit.TypeS[t], "k1"), "C20.contains_differs", "ContainsKeyed differs for slot", t)
	}
	vrt.Assert(c1.Contains(kit.TypeI0) == c2.Contains(kit.TypeI0), "C20.contains_differs", "Contains differs for the interface type")
	vrt.Assert(c1.ContainsKeyed(kit.TypeI0, "k1") == c2.ContainsKeyed(kit.TypeI0, "k1"), "C20.contains_differs", "ContainsKeyed differs for the interface type")
	vrt.Assert(c1.Count() == c2.Count(), "C20.count_differs", "Count", c1.Count(), "vs", c2.Count())
	// the same option list applied to a fresh collection gives the same collection again
	c3 := godi.NewCollection()
	err3 := c3.AddModules(top...)
	vrt.Assert((err3 != nil) == (err2 != nil), "C20.reapplied_verdict_differs", "second application of the same option list returned", err3, "the direct calls", err2)
	vrt.Assert(c3.Count() == c2.Count(), "C20.reapplied_count_differs", "second application of the same option list: Count", c3.Count(), "vs", c2.Count())
	for _, t := range []int{0, 1, 2, 3} {
		vrt.Assert(c3.Contains(kit.TypeS[t]) == c2.Contains(kit.TypeS[t]) && c3.ContainsKeyed(kit.TypeS[t], "k1") == c2.ContainsKeyed(kit.TypeS[t], "k1"), "C20.reapplied_contains_differs", "second application: Contains differs for slot", t)
	}
	// ... and indistinguishable providers
	kit.Reset()
	p1, b1 := c1.Build()
	calls1 := kit.Calls
	kit.Reset()
	p2, b2 := c2.Build()
	calls2 := kit.Calls
	vrt.Assert((b1 != nil) == (b2 != nil), "C20.build_differs", "Build verdicts differ:", b1, b2)
	vrt.Assert(calls1 == calls2, "C20.construction_differs", "constructor invocations at Build differ")
	if b1 == nil && b2 == nil {
		for _, t := range []int{0, 1, 2, 3} {
			_, e1 := p1.Get(kit.TypeS[t])
			_, e2 := p2.Get(kit.TypeS[t])
			vrt.Assert(kit.Class(e1) == kit.Class(e2), "C20.resolution_differs", "Get differs for slot", t, kit.Class(e1), kit.Class(e2))
			_, k1 := p1.GetKeyed(kit.TypeS[t], "k1")
			_, k2 := p2.GetKeyed(kit.TypeS[t], "k1")
			vrt.Assert(kit.Class(k1) == kit.Class(k2), "C20.resolution_differs", "GetKeyed differs for slot", t)
		}
		p1.Close()
		p2.Close()
	}
}
