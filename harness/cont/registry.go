package cont

import (
	"errors"
	"reflect"

	"github.com/junioryono/godi/v4"
	"github.com/junioryono/godi/v4/zzverif/kit"
	"github.com/junioryono/godi/v4/zzverif/vrt"
)

// reference registry: identity -> registration tag; groups keep call order
type regEntry struct {
	id   kit.Ident
	tag  int // which Add call produced it
	slot int
	life int
}

type registry struct {
	entries []regEntry // in call order
}

func (r *registry) has(id kit.Ident) bool {
	for _, e := range r.entries {
		if e.id == id {
			return true
		}
	}
	return false
}

func (r *registry) remove(t int, key string) {
	out := r.entries[:0:0]
	for _, e := range r.entries {
		if e.id.Type == t && e.id.Key == key && e.id.Group == "" {
			continue
		}
		out = append(out, e)
	}
	r.entries = out
}

// splitsMultiOutput: removing id takes away one output of a multi-output
// registration whose other output stays.
func (r *registry) splitsMultiOutput(id kit.Ident) bool {
	for _, e := range r.entries {
		if e.id != id {
			continue
		}
		for _, o := range r.entries {
			if o.tag == e.tag && o.id != id {
				return true
			}
		}
	}
	return false
}

func (r *registry) clone() *registry {
	return &registry{entries: append([]regEntry(nil), r.entries...)}
}

// IX is an interface no service of the kit implements.
type IX interface{ NotImplementedByAnyone() }

// two more "forms" of the registry harness: a registration with two As options
// of which one names an interface the service does not implement - the call
// must be rejected as a whole
const (
	formAsBadLast  = -1 // As[I0], As[IX]
	formAsBadFirst = -2 // As[IX], As[I0]
	formInitNamed  = -3 // a scoped function without service result, Name("k1"): identity (struct{}, "k1")
)

// pool of identities the queries range over
var poolTypes = []int{0, 1, kit.NS + 0, kit.TI0, kit.TVoid}

func identsOfForm(slot, form int) []kit.Ident {
	w := &kit.World{N: kit.NS}
	w.Regs[slot] = kit.Reg{Present: true, Form: form}
	return w.Identities(slot)
}

type provSnap struct {
	p   godi.Provider
	reg *registry
}

func descIdent(d *godi.Descriptor) (kit.Ident, bool) {
	id := kit.Ident{Group: d.Group}
	switch {
	case d.Type == kit.TypeI0:
		id.Type = kit.TI0
	case d.Type == kit.TypeI1:
		id.Type = kit.TI1
	case d.Type == kit.TypeVoid:
		id.Type = kit.TVoid
	default:
		ok := false
		for r := 0; r < kit.NS; r++ {
			if d.Type == kit.TypeS[r] {
				id.Type, ok = r, true
			}
			if d.Type == kit.TypeA[r] {
				id.Type, ok = kit.NS+r, true
			}
		}
		if !ok {
			return id, false
		}
	}
	if d.Group == "" {
		if s, ok := d.Key.(string); ok {
			id.Key = s
		}
	}
	return id, true
}

func queryAll(c godi.Collection, m *registry, step int) {
	for _, t := range poolTypes {
		id := kit.Ident{Type: t}
		vrt.Assert(c.Contains(id.RType()) == m.has(id), "C17.contains", "step", step, "Contains differs from the reference registry for type", t)
		idk := kit.Ident{Type: t, Key: "k1"}
		vrt.Assert(c.ContainsKeyed(idk.RType(), "k1") == m.has(idk), "C17.contains_keyed", "step", step, "ContainsKeyed differs for type", t)
	}
	sl := c.ToSlice()
	vrt.Assert(c.Count() == len(sl), "C17.count_vs_slice", "step", step, "Count", c.Count(), "len(ToSlice)", len(sl))
	// identity multiset of ToSlice == reference registry
	used := make([]bool, len(m.entries))
	for _, d := range sl {
		id, ok := descIdent(d)
		found := false
		if ok {
			for k, e := range m.entries {
				if !used[k] && e.id == id {
					used[k], found = true, true
					break
				}
			}
		}
		vrt.Assert(found, "C17.slice_has_stale_entry", "step", step, "ToSlice lists a registration the reference registry does not have (type", id.Type, "key", id.Key, "group", id.Group, ")")
	}
	for k := range used {
		vrt.Assert(used[k], "C17.slice_misses_entry", "step", step, "ToSlice misses a registration of the reference registry")
	}
}

// probe: what a provider answers for every pool identity
func probe(p godi.Provider, m *registry, what string) {
	for _, t := range poolTypes {
		if t == kit.TVoid {
			continue // initializers are not resolvable; their runs are counted instead
		}
		for _, key := range []string{"", "k1"} {
			id := kit.Ident{Type: t, Key: key}
			var err error
			var v any
			if key == "" {
				v, err = p.Get(id.RType())
			} else {
				v, err = p.GetKeyed(id.RType(), key)
			}
			if m.has(id) {
				vrt.Assert(err == nil && v != nil, "C17.build_misses_registration", what, "identity in the registry does not resolve: type", t, "key", key, err)
			} else {
				vrt.Assert(errors.Is(err, godi.ErrServiceNotFound), "C17.build_uses_removed", what, "identity not in the registry resolves (or fails differently): type", t, "key", key, err)
			}
		}
		// groups: member count
		n := 0
		for _, e := range m.entries {
			if e.id.Type == t && e.id.Group == "g1" {
				n++
			}
		}
		id := kit.Ident{Type: t, Group: "g1"}
		vs, err := p.GetGroup(id.RType(), "g1")
		vrt.Assert(err == nil && len(vs) == n, "C17.group_members", what, "group of type", t, "has", len(vs), "members; registry says", n, err)
	}
}

// H_Registry (C17): a history of Add / Remove / RemoveKeyed / AddModules /
// Build over a small pool; queries compared with a reference registry after
// every step; every built provider probed again at the end.
func H_Registry() {
	L := vrt.Param("L", 2)
	c := godi.NewCollection()
	m := &registry{}
	var snaps []provSnap
	tag := 0
	add := func(slot, life, form int) (error, []kit.Ident) {
		w := &kit.World{N: kit.NS}
		w.Order = [kit.NS]int{0, 1, 2, 3}
		w.Regs[slot] = kit.Reg{Present: true, Life: life, Form: form, Variant: 0}
		return w.Add(c, slot), w.Identities(slot)
	}
	forms := []int{kit.IdPlain, kit.IdNamed, kit.IdGroup, kit.IdAs, kit.IdMulti, kit.IdResObj2, kit.IdResObjGroup2, formAsBadLast, formAsBadFirst, formInitNamed}
	for s := 1; s <= L; s++ {
		sfx := string(rune('0' + s))
		lo, hi := 0, 4
		if vrt.Param("prefix", 0) == 1 {
			// histories that start with "Add, Build": the rest stays symbolic
			if s == 1 {
				lo, hi = 0, 0
			}
			if s == 2 {
				lo, hi = 4, 4
			}
		}
		op := vrt.Pick("op"+sfx, lo, hi)
		switch op {
		case 0, 1: // Add (directly / through a module)
			slot := vrt.Pick("slot"+sfx, 0, 1)
			life := vrt.Pick("life"+sfx, 0, 2)
			form := forms[vrt.Pick("form"+sfx, 0, len(forms)-1)]
			if form == formInitNamed {
				id := kit.Ident{Type: kit.TVoid, Key: "k1"}
				collide := m.has(id)
				var err error
				if op == 0 {
					err = c.AddScoped(kit.TabV[slot][0], godi.Name("k1"))
				} else {
					err = c.AddModules(godi.NewModule("m", godi.AddScoped(kit.TabV[slot][0], godi.Name("k1"))))
				}
				vrt.Cover("initializer_add")
				vrt.Assert((err != nil) == collide, "C17.duplicate_rule", "step", s, "Add of a named initializer returned", err, "but identity collision =", collide)
				if err == nil && !collide {
					tag++
					m.entries = append(m.entries, regEntry{id: id, tag: tag, slot: slot, life: kit.LScoped})
				}
				break
			}
			if form < 0 {
				// rejected for a reason other than a collision: nothing of it may stay
				opts := []godi.AddOption{godi.As[kit.I0](), godi.As[IX]()}
				if form == formAsBadFirst {
					opts = []godi.AddOption{godi.As[IX](), godi.As[kit.I0]()}
				}
				var err error
				if op == 0 {
					err = c.AddSingleton(kit.TabC[slot][0], opts...)
				} else {
					err = c.AddModules(godi.NewModule("m", godi.AddSingleton(kit.TabC[slot][0], opts...)))
				}
				vrt.Cover("rejected_unimplemented_interface")
				vrt.Assert(err != nil, "C17.unimplemented_interface_accepted", "step", s, "a registration As an interface the service does not implement was accepted")
				break
			}
			ids := identsOfForm(slot, form)
			collide := false
			for _, id := range ids {
				if id.Group == "" && m.has(id) {
					collide = true
				}
			}
			var err error
			if op == 0 {
				err, _ = add(slot, life, form)
			} else {
				w := &kit.World{N: kit.NS}
				w.Regs[slot] = kit.Reg{Present: true, Life: life, Form: form, Variant: 0}
				ctor, opts := w.Ctor(slot)
				var mo godi.ModuleOption
				switch life {
				case kit.LSingleton:
					mo = godi.AddSingleton(ctor, opts...)
				case kit.LScoped:
					mo = godi.AddScoped(ctor, opts...)
				default:
					mo = godi.AddTransient(ctor, opts...)
				}
				err = c.AddModules(godi.NewModule("m", mo))
			}
			vrt.Assert((err != nil) == collide, "C17.duplicate_rule", "step", s, "Add returned", err, "but identity collision =", collide)
			if collide {
				vrt.Cover("rejected_add")
				// first identity free, second taken: the multi-output half-registration case
				if len(ids) > 1 && !m.has(ids[0]) {
					vrt.Cover("rejected_second_identity")
				}
				var ar *godi.AlreadyRegisteredError
				vrt.Assert(errors.As(err, &ar), "C17.duplicate_error_class", "rejection is not an AlreadyRegisteredError:", err)
			}
			if err == nil && !collide && form == kit.IdResObjGroup2 {
				// registered, but godi cannot construct group fields of result objects (open finding)
				vrt.Finding("KF-C04-multi-options", true)
			}
			if err == nil && !collide {
				tag++
				for _, id := range ids {
					m.entries = append(m.entries, regEntry{id: id, tag: tag, slot: slot, life: life})
				}
			}
		case 2:
			t := poolTypes[vrt.Pick("t"+sfx, 0, len(poolTypes)-1)]
			vrt.Cover("remove")
			vrt.Finding("KF-C17-remove-one-output", m.splitsMultiOutput(kit.Ident{Type: t}))
			c.Remove(kit.Ident{Type: t}.RType())
			m.remove(t, "")
		case 3:
			t := poolTypes[vrt.Pick("t"+sfx, 0, len(poolTypes)-1)]
			vrt.Cover("remove_keyed")
			vrt.Finding("KF-C17-remove-one-output", m.splitsMultiOutput(kit.Ident{Type: t, Key: "k1"}))
			c.RemoveKeyed(kit.Ident{Type: t}.RType(), "k1")
			m.remove(t, "k1")
		case 4:
			p, err := c.Build()
			vrt.Assert(err == nil, "C17.build_failed", "step", s, "Build failed:", err)
			if err == nil {
				vrt.Cover("snapshot")
				snaps = append(snaps, provSnap{p, m.clone()})
				probe(p, m, "provider right after its Build:")
			}
		}
		queryAll(c, m, s)
	}
	// what a later Build uses is exactly what the queries describe
	kit.Reset()
	p, err := c.Build()
	vrt.Assert(err == nil, "C17.build_failed", "final Build failed:", err)
	if err == nil {
		// constructors of singletons that are not in the registry never ran
		for slot := 0; slot < 2; slot++ {
			inReg := false
			for _, e := range m.entries {
				if e.slot == slot && e.life == kit.LSingleton {
					inReg = true
				}
			}
			ran := 0
			for k := range kit.Calls {
				if k != kit.KindVoid && k != kit.KindVoidErr { // initializers are accounted for below
					ran += kit.Calls[k][slot]
				}
			}
			if !inReg {
				vrt.Assert(ran == 0, "C17.removed_constructor_ran", "constructor of slot", slot, "ran", ran, "times at Build although no singleton registration of it remains")
			}
		}
		// a scoped initializer that is in the registry runs once for the root scope
		// at Build and once per scope; one that was removed never runs
		atBuild := [2]int{kit.Calls[kit.KindVoid][0], kit.Calls[kit.KindVoid][1]}
		if sc, e := p.CreateScope(nil); e == nil {
			for slot := 0; slot < 2; slot++ {
				inReg := false
				for _, e := range m.entries {
					if e.id.Type == kit.TVoid && e.slot == slot {
						inReg = true
					}
				}
				perScope := kit.Calls[kit.KindVoid][slot] - atBuild[slot]
				if inReg {
					vrt.Assert(atBuild[slot] == 1 && perScope == 1, "C17.initializer_runs", "registered initializer of slot", slot, "ran", atBuild[slot], "times at Build and", perScope, "times at scope creation")
				} else {
					vrt.Assert(atBuild[slot] == 0 && perScope == 0, "C17.removed_constructor_ran", "initializer of slot", slot, "is not in the registry but ran", atBuild[slot], "times at Build and", perScope, "times at scope creation")
				}
			}
			sc.Close()
		}
		probe(p, m, "final Build:")
		p.Close()
	}
	// a provider built earlier is unaffected by later edits of the collection
	for _, sn := range snaps {
		probe(sn.p, sn.reg, "provider built earlier, probed after later edits:")
		sn.p.Close()
	}
	_ = reflect.TypeOf
}
