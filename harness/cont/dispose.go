package cont

import (
	"context"
	"errors"

	"github.com/junioryono/godi/v4"
	"github.com/junioryono/godi/v4/zzverif/kit"
	"github.com/junioryono/godi/v4/zzverif/vrt"
)

func disposeProfile() (lifes, forms, variants []int) {
	all := []int{kit.LSingleton, kit.LScoped, kit.LTransient}
	switch vrt.Param("profile", 0) {
	case 0:
		return all, []int{kit.IdPlain, kit.IdMulti, kit.IdResObj, kit.IdGroup, kit.IdAs}, []int{0, 1, 11}
	case 1:
		return all, []int{kit.IdPlain}, []int{0, 1, 2, 3, 6, 9, 11}
	case 2: // initializers create instances at scope creation
		return all, []int{kit.IdPlain, kit.IdVoid, kit.IdVoidErr}, []int{0, 1, 11}
	}
	panic("bad profile")
}

var debugDispose = false

var treeParent = []int{-1, 0, 1, 0}

func nodeName(k int) string {
	if k == 0 {
		return "p"
	}
	return "s" + string(rune('0'+k))
}

// isAncestorOrSelf in the fixed tree (0 = provider, which closes everything).
func isAncestorOrSelf(a, k int) bool {
	for x := k; x >= 0; x = treeParent[x] {
		if x == a {
			return true
		}
	}
	return false
}

type disp struct {
	w       *kit.World
	m       *kit.Model
	nodes   []node
	closed  []bool
	nn      int
	faulty  bool
	panicky bool // some Close method panics: only the order of what did get closed is judged
	blown   bool // a container Close call panicked
}

func disposable(in *kit.Inst) bool {
	if in.Kind == kit.KindInstance {
		return false // not created by the container
	}
	return in.Aux || kit.Disposable[in.Slot]
}

// owner returns the scope node that owns the instance according to the model
// (-1: the provider, as a singleton; -2: unknown / never observed).
func (d *disp) owner(in *kit.Inst) int {
	for _, mi := range d.m.All {
		if mi.Real == in {
			return mi.Owner
		}
	}
	return -2
}

// closeNode calls Close on node k inside a named extent and checks C12's
// return-value rule.
func (d *disp) closeNode(k int) {
	first := !d.closed[k]
	if debugDispose {
		println("closeNode", k, first, totalCloses())
	}
	// which still-open instances does this Close own (subtree)?
	expectErr := false
	for _, in := range kit.Log {
		if !disposable(in) || in.Closed > 0 || !in.CloseErr {
			continue
		}
		o := d.owner(in)
		switch {
		case o == -2:
		case k == 0: // provider: everything
			expectErr = true
		case o >= 0 && isAncestorOrSelf(k, o):
			expectErr = true
		}
	}
	before := totalCloses()
	kit.ActiveCloses = append(kit.ActiveCloses, nodeName(k))
	var err error
	panicked, _ := guard(func() { err = d.nodes[k].p.Close() })
	kit.ActiveCloses = kit.ActiveCloses[:len(kit.ActiveCloses)-1]
	if d.panicky {
		// a disposable's Close panicked somewhere below: what a Close call returns
		// or completes is not judged here, only the order of the closes that happened
		if panicked {
			d.blown = true
		}
		return
	}
	vrt.Assert(!panicked, "C12.close_panicked", "Close of", nodeName(k), "panicked although no Close method panics")
	if panicked {
		d.blown = true
		return
	}
	var de *godi.DisposalError
	isDisp := errors.As(err, &de)
	if first {
		if !d.faulty {
			vrt.Assert((err != nil) == expectErr, "C12.error_report", "Close of", nodeName(k), "returned", err, "but failing owned instances:", expectErr)
		}
		if err != nil {
			vrt.Assert(isDisp, "C12.error_type", "Close error is not a DisposalError")
		}
	} else {
		vrt.Assert(err == nil, "C12.second_close_error", "repeated Close returned an error")
		vrt.Assert(totalCloses() == before, "C12.second_close_closes", "repeated Close closed something again", nodeName(k), before, totalCloses())
	}
	// whatever it returned, the Close call is complete: every disposable owned
	// in the subtree has been closed (errors are collected, not a reason to stop) ...
	for _, in := range kit.Log {
		if !disposable(in) {
			continue
		}
		o := d.owner(in)
		if o == -2 || (k != 0 && !(o >= 0 && isAncestorOrSelf(k, o))) {
			continue
		}
		vrt.Assert(in.Closed >= 1, "C12.close_incomplete", "Close of", nodeName(k), "returned (", err, ") but an instance of slot", in.Slot, "owned by", o, "is still open")
	}
	// ... and every scope of the subtree is closed
	for x := 1; x < d.nn && x < len(d.nodes); x++ {
		if k != 0 && !isAncestorOrSelf(k, x) {
			continue
		}
		_, gerr := d.nodes[x].p.Get(kit.TypeS[0])
		vrt.Assert(isDisposed(gerr), "C13.subtree_open_after_close", "Close of", nodeName(k), "returned but scope", nodeName(x), "still answers:", gerr)
	}
	// closing a node closes its whole subtree
	for x := 0; x < d.nn; x++ {
		if isAncestorOrSelf(k, x) {
			d.closed[x] = true
		}
	}
	if k == 0 {
		for x := range d.closed {
			d.closed[x] = true
		}
	}
}

func totalCloses() int {
	n := 0
	for _, in := range kit.Log {
		n += in.Closed
	}
	return n
}

// checkClosed: C10 / C11 at the end of the history (everything closed).
func (d *disp) checkClosed() {
	for _, in := range kit.Log {
		if !disposable(in) || d.panicky {
			continue
		}
		vrt.Assert(in.Closed >= 1, "C10.leaked", "instance of slot", in.Slot, "aux", in.Aux, "was never closed")
		vrt.Assert(in.Closed <= 1, "C10.closed_twice", "instance of slot", in.Slot, "closed", in.Closed, "times")
		if in.Closed == 0 {
			continue
		}
		o := d.owner(in)
		ctx := in.CloseCtx[0]
		switch {
		case o == -2:
		case o == -1:
			vrt.Assert(ctx == "p;", "C10.singleton_closed_by_scope", "singleton of slot", in.Slot, "closed during", ctx)
		default:
			ok := false
			for a := o; a >= 0; a = treeParent[a] {
				// the innermost active Close call must be the owner or an ancestor
				if hasSuffix(ctx, nodeName(a)+";") || ctx == nodeName(a)+";" {
					ok = true
				}
			}
			vrt.Assert(ok, "C10.closed_early", "instance of slot", in.Slot, "owned by", nodeName(o), "closed during", ctx)
		}
	}
	// C11: same owner => reverse creation order
	for _, a := range kit.Log {
		for _, b := range kit.Log {
			if !disposable(a) || !disposable(b) || a.Closed != 1 || b.Closed != 1 || a.Seq >= b.Seq {
				continue
			}
			oa, ob := d.owner(a), d.owner(b)
			if oa == -2 || ob == -2 {
				continue
			}
			if oa == ob {
				vrt.Assert(a.CloseSeq[0] > b.CloseSeq[0], "C11.not_reverse_creation", "same owner", oa, "created", a.Seq, "<", b.Seq, "but closed", a.CloseSeq[0], "before", b.CloseSeq[0])
			}
		}
	}
	for _, a := range kit.Log {
		for _, b := range kit.Log {
			if !disposable(a) || !disposable(b) || a.Closed != 1 || b.Closed != 1 {
				continue
			}
			oa, ob := d.owner(a), d.owner(b)
			if oa == -2 || ob == -2 {
				continue
			}
			// descendant scope entirely before its ancestor's own instances
			if oa >= 1 && ob >= 0 && oa != ob && isAncestorOrSelf(ob, oa) && a.CloseCtx[0] == b.CloseCtx[0] {
				vrt.Assert(a.CloseSeq[0] < b.CloseSeq[0], "C11.parent_before_child", "instance of child scope", oa, "closed after instance of ancestor", ob)
			}
			// every scope before any singleton
			if oa >= 0 && ob == -1 {
				vrt.Assert(a.CloseSeq[0] < b.CloseSeq[0], "C11.singleton_before_scope", "a singleton was closed before an instance owned by scope", oa)
			}
		}
	}
}

// checkDescendantsFirst: whenever an instance owned by a scope has been closed,
// every instance that existed at that moment in a strict descendant scope had
// been closed before it (also when some Close call ended in a panic or an error).
func (d *disp) checkDescendantsFirst() {
	for _, b := range kit.Log {
		if !disposable(b) || b.Closed < 1 {
			continue
		}
		ob := d.owner(b)
		if ob < 0 {
			continue
		}
		for _, a := range kit.Log {
			if !disposable(a) || a == b {
				continue
			}
			oa := d.owner(a)
			if oa < 1 || oa == ob || !isAncestorOrSelf(ob, oa) || a.Seq > b.CloseSeq[0] {
				continue
			}
			// a scope whose own Close was cut short by a panicking disposable (its
			// own or one further down: the panic travels up through the Close calls
			// in progress) can never finish closing: what it still holds is a leak
			// caused by that panic, not an ordering matter
			cut := false
			for y := oa; y >= 0 && y != ob; y = treeParent[y] {
				for _, c := range kit.Log {
					if oc := d.owner(c); !c.Aux && c.Closed >= 1 && kit.ClosePanicMask&(1<<c.Slot) != 0 && oc >= 1 && isAncestorOrSelf(y, oc) && c.CloseSeq[0] < b.CloseSeq[0] {
						cut = true
					}
				}
			}
			if cut {
				continue
			}
			vrt.Assert(a.Closed >= 1 && a.CloseSeq[0] < b.CloseSeq[0], "C11.ancestor_before_descendant", "instance of slot", b.Slot, "owned by", nodeName(ob), "was closed while an instance of slot", a.Slot, "in descendant scope", nodeName(oa), "was still open")
		}
	}
}

func hasSuffix(s, suf string) bool {
	return len(s) >= len(suf) && s[len(s)-len(suf):] == suf
}

// H_Dispose: world + fault plan + close-error mask; build, scope tree,
// resolutions, closes in a symbolic order (with repetitions), final provider
// close. C10 / C11 / C12 obligations.
func H_Dispose() {
	n := vrt.Param("n", 2)
	nn := vrt.Param("nodes", 3)
	L := vrt.Param("L", 1)
	Lc := vrt.Param("closes", 2)
	lifes, forms, variants := disposeProfile()
	// tree 0: provider <- s1 <- s2, provider <- s3; tree 1: s1 has two children (s2, s3)
	if vrt.Param("tree", 0) == 1 {
		treeParent = []int{-1, 0, 1, 1}
	} else {
		treeParent = []int{-1, 0, 1, 0}
	}
	w := kit.PickWorld(n, lifes, forms, variants)
	vrt.Assume(sane(w))
	vrt.Assume(!w.Duplicate())
	vrt.Assume(buildable(w))
	knownBuildDefects(w)
	switch vrt.Param("faults", 0) {
	case 1:
		kit.FaultSlot = vrt.Pick("fslot", -1, n-1)
		if kit.FaultSlot >= 0 {
			kit.FaultNth = vrt.Pick("fnth", 1, vrt.Param("fnth_max", 2))
			kit.FaultKind = vrt.Pick("fkind", 1, 3)
		}
	case 2: // the context given to BuildWithContext is cancelled from inside a constructor
		kit.FaultSlot = vrt.Pick("fslot", 0, n-1)
		kit.FaultNth = 1
		kit.FaultKind = kit.FaultCancel
	}
	panicky := false
	if vrt.Param("closepanic", 0) == 1 {
		kit.ClosePanicMask = vrt.Pick("cpanic", 1, 1<<n-1)
		panicky = true
	}
	if vrt.Param("errmask", 0) == 1 {
		kit.CloseErrMask = vrt.Pick("cerr", 0, 1<<n-1)
		kit.CloseErrAux = vrt.Pick("cerrx", 0, 1) * (1<<n - 1)
	}
	faulty := kit.FaultSlot >= 0

	c := godi.NewCollection()
	errs := w.Register(c)
	vrt.Assume(!addErrs(errs, n))
	var p godi.Provider
	var err error
	if kit.FaultKind == kit.FaultCancel {
		ctx, cancel := context.WithCancel(context.Background())
		kit.OnFault = cancel
		p, err = c.BuildWithContext(ctx)
		kit.OnFault = nil
		kit.FaultSlot = -1 // only the Build is disturbed
		if err == nil {
			vrt.Cover("cancel_ignored")
		} else {
			vrt.Cover("build_cancelled")
		}
		cancel()
	} else {
		p, err = c.Build()
	}
	if err != nil {
		vrt.Cover("build_failed")
		// a failed Build leaves nothing behind: every disposable it created is closed
		for _, in := range kit.Log {
			if disposable(in) {
				vrt.Assert(in.Closed == 1, "C10.failed_build_leak", "Build failed but instance of slot", in.Slot, "has close count", in.Closed)
			}
		}
		return
	}
	vrt.Cover("built")
	m := kit.NewModel(w)
	if !faulty {
		m.Build()
	}
	d := &disp{w: w, m: m, nodes: []node{{p}}, closed: make([]bool, nn), nn: nn, faulty: faulty, panicky: panicky}
	for k := 1; k < nn; k++ {
		sc, err := d.nodes[treeParent[k]].p.CreateScope(nil)
		if err != nil {
			vrt.Cover("scope_failed")
			vrt.Finding("KF-C10-failed-scope-creation", true)
			// the never-returned scope must not leak what its initializers created:
			// closing everything that exists must account for every instance
			for j := k - 1; j >= 0; j-- {
				d.closeNode(j)
			}
			for _, in := range kit.Log {
				if disposable(in) {
					vrt.Assert(in.Closed == 1, "C10.failed_scope_leak", "scope creation failed; instance of slot", in.Slot, "has close count", in.Closed)
				}
			}
			return
		}
		d.nodes = append(d.nodes, node{sc})
		if !faulty {
			m.NewScope()
		}
	}
	var ids []kit.Ident
	for r := 0; r < n; r++ {
		ids = append(ids, w.Identities(r)...)
	}
	if len(ids) == 0 {
		return
	}
	for s := 0; s < L; s++ {
		k := vrt.Pick("node"+string(rune('0'+s)), 0, nn-1)
		x := vrt.Pick("id"+string(rune('0'+s)), 0, len(ids)-1)
		if faulty {
			resolveReal(d.nodes[k].p, ids[x])
		} else {
			step(m, d.nodes, k, ids[x], "history")
		}
	}
	for k := 0; k < nn; k++ {
		for _, id := range ids {
			if faulty {
				resolveReal(d.nodes[k].p, id)
			} else {
				step(m, d.nodes, k, id, "sweep")
			}
		}
	}
	vrt.Cover("resolved")
	// nothing is closed before any Close call
	for _, in := range kit.Log {
		vrt.Assert(in.Closed == 0, "C10.closed_before_any_close", "instance of slot", in.Slot, "closed before any Close was called")
	}
	// closes in a symbolic order, repetitions allowed
	for s := 0; s < Lc; s++ {
		k := vrt.Pick("close"+string(rune('0'+s)), 0, nn-1)
		d.closeNode(k)
		// after closing k nothing owned elsewhere may have been touched: checked at the end via CloseCtx
	}
	for k := nn - 1; k >= 0; k-- {
		d.closeNode(k)
	}
	d.closeNode(0)
	vrt.Cover("all_closed")
	d.checkClosed()
	if !d.faulty {
		d.checkDescendantsFirst()
	}
}
