package cont

import (
	"context"
	"errors"

	"github.com/junioryono/godi/v4"
	"github.com/junioryono/godi/v4/zzverif/kit"
	"github.com/junioryono/godi/v4/zzverif/vrt"
)

// result of one operation issued by a harness goroutine
type opResult struct {
	op       int
	panicked bool
	pv       any
	err      error
	val      any
	vals     []any
	scope    godi.Scope
}

const (
	opResolve0      = iota // resolve registration 0 in the shared scope
	opResolve1             // resolve registration 1 in the shared scope
	opResolveChild         // resolve registration 0 in the child scope
	opCreateChild          // create (and keep) a child of the shared scope
	opCreateTop            // create a scope on the provider
	opCloseShared          // close the shared scope
	opCloseProvider        // close the provider
	opCancelShared         // cancel the context the shared scope was created with
	opResolveRoot          // resolve registration 0 on the provider itself
	opCloseChild           // close the child of the shared scope
	opResolve2             // resolve registration 2 (no dependencies) in the shared scope
	numOps
)

func okOrDocumented(err error) bool {
	return err == nil || isDisposed(err)
}

// H_Conc: two harness goroutines issue up to two operations each on a shared
// provider / scope / child scope; the VM switches between them at every point
// where the container calls user code (constructors and Close methods yield)
// and at every blocking point; each switch is a solver-enumerated choice.
func H_Conc() {
	maxOps := vrt.Param("ops", 1)
	l0 := []int{kit.LSingleton, kit.LScoped, kit.LTransient}[vrt.Pick("life0", 0, 2)]
	l1 := []int{kit.LSingleton, kit.LScoped, kit.LTransient}[vrt.Pick("life1", 1, 2)]
	l2 := []int{kit.LScoped, kit.LTransient}[vrt.Pick("life2", 0, 1)]
	w := &kit.World{N: 3}
	w.Order = [kit.NS]int{0, 1, 2, 3}
	// registration 0 (disposable S0) takes registrations 1 and 2 as parameters, so
	// that a user callback runs between the resolution of its two arguments
	v0 := []int{2, 22, 30}[vrt.Pick("var0", 0, vrt.Param("vars", 3)-1)] // S0(S1, S2), S0(Scope, S1) or S0(In{S1; S2})
	w.Regs[0] = kit.Reg{Present: true, Life: l0, Form: kit.IdPlain, Variant: v0}
	w.Regs[1] = kit.Reg{Present: true, Life: l1, Form: kit.IdPlain, Variant: 0}
	w.Regs[2] = kit.Reg{Present: true, Life: l2, Form: kit.IdPlain, Variant: 0}
	// world shapes: 0 as above; 1 adds a scoped initializer taking S0 (scope
	// creation then runs user code); 2 makes registrations 1 and 2 the members of
	// a value group that registration 0 consumes (user code between the members);
	// 3 makes registration 0 a multi-return constructor
	wv := vrt.Pick("world", 0, vrt.Param("worlds", 4)-1)
	if only := vrt.Param("world_only", -1); only >= 0 {
		vrt.Assume(wv == only)
	}
	switch wv {
	case 1:
		w.N = 4
		w.Regs[3] = kit.Reg{Present: true, Life: kit.LScoped, Form: kit.IdVoid, Variant: 1}
	case 2:
		vrt.Assume(v0 == 2)
		w.Regs[0].Variant = 8
		w.Regs[1].Form = kit.IdAsGroup
		w.Regs[2].Form = kit.IdAsGroup
	case 3:
		w.Regs[0].Form = kit.IdMulti
	}
	vrt.Assume(buildable(w))
	c := godi.NewCollection()
	errs := w.Register(c)
	vrt.Assume(!addErrs(errs, w.N))
	p, err := c.Build()
	vrt.Assume(err == nil)
	ctx, cancel := context.WithCancel(context.Background())
	shared, e := p.CreateScope(ctx)
	vrt.Assume(e == nil)
	// nochild=1: the shared scope has no child of its own when the operations start
	// (a scope without children closes along another path)
	noChild := vrt.Param("nochild", 0) == 2 || vrt.Pick("nochild", 0, vrt.Param("nochild", 0)&1) == 1
	var child godi.Scope
	if !noChild {
		child, e = shared.CreateScope(nil)
		vrt.Assume(e == nil)
	}

	// closeerr=1: instances with failing Close methods exist in the shared scope
	// and in its child before the operations start (C12 under concurrency)
	closeErr := vrt.Param("closeerr", 0) == 1
	if closeErr {
		kit.CloseErrMask = 0xF
		shared.Get(kit.TypeS[0])
		if child != nil {
			child.Get(kit.TypeS[0])
		}
	}
	// a scope that came and went just before the operations start (whatever a
	// closed scope leaves behind in the provider is there when they run)
	if gone, ge := p.CreateScope(nil); ge == nil {
		gone.Close()
	}

	kit.YieldInCtor = true
	kit.YieldInClose = vrt.Param("yieldclose", 1) == 1

	var prog [2][]int
	for g := 0; g < 2; g++ {
		for k := 0; k < maxOps; k++ {
			prog[g] = append(prog[g], vrt.Pick("op"+string(rune('a'+g))+string(rune('0'+k)), 0, numOps-1))
		}
	}
	// opset bounds the operation pairs of a run: 1 = at least one closing
	// operation (Close of a scope / the provider, cancellation), 2 = none
	if os := vrt.Param("opset", 0); os != 0 {
		closing := false
		for g := 0; g < 2; g++ {
			for _, op := range prog[g] {
				if op == opCloseShared || op == opCloseProvider || op == opCancelShared || op == opCloseChild {
					closing = true
				}
			}
		}
		if os == 4 {
			// both operations are closing operations
			for g := 0; g < 2; g++ {
				for _, op := range prog[g] {
					vrt.Assume(op == opCloseShared || op == opCloseProvider || op == opCancelShared || op == opCloseChild)
				}
			}
		} else {
			vrt.Assume(closing == (os == 1))
		}
	}
	if noChild {
		for g := 0; g < 2; g++ {
			for _, op := range prog[g] {
				vrt.Assume(op != opResolveChild && op != opCloseChild)
			}
		}
	}
	if wv == 2 {
		// registration 2 is a group member there, not an identity of its own
		for g := 0; g < 2; g++ {
			for _, op := range prog[g] {
				vrt.Assume(op != opResolve2)
			}
		}
	}
	// symmetric programs: explore each unordered pair once
	if maxOps == 1 {
		vrt.Assume(prog[0][0] <= prog[1][0])
	}
	// carve-out of the open finding: both goroutines make a first resolution
	// that constructs the same scoped registration in the same scope
	touches := func(g int) (sharedMask, childMask, rootMask int) {
		for _, op := range prog[g] {
			m := 0
			switch op {
			case opResolve0, opResolveChild, opResolveRoot:
				if l2 == kit.LScoped {
					m |= 4
				}
				if l0 == kit.LScoped {
					m |= 1
				}
				if l1 == kit.LScoped {
					m |= 2
				}
			case opResolve1:
				if l1 == kit.LScoped {
					m |= 2
				}
			case opResolve2:
				if l2 == kit.LScoped {
					m |= 4
				}
			}
			switch op {
			case opResolveChild:
				childMask |= m
			case opResolveRoot:
				rootMask |= m
			default:
				sharedMask |= m
			}
		}
		return
	}
	sa, ca, ra := touches(0)
	sb, cb, rb := touches(1)
	vrt.Finding("KF-C02-concurrent-first-resolution", sa&sb != 0 || ca&cb != 0 || ra&rb != 0)

	// the context handed to the CreateScope operations: nil (inherit) or a context
	// of the caller's that nobody ever cancels (then only Close can end the scope)
	var newCtx context.Context
	if vrt.Pick("cctx", 0, vrt.Param("cctx", 0)) == 1 {
		newCtx = context.WithValue(context.Background(), valKey{8}, "caller")
	}
	var res [2][]*opResult
	run := func(g int) {
		for _, op := range prog[g] {
			r := &opResult{op: op}
			r.panicked, r.pv = guard(func() {
				switch op {
				case opResolve0:
					r.val, r.err = shared.Get(kit.TypeS[0])
				case opResolve1:
					if wv == 2 {
						r.vals, r.err = shared.GetGroup(kit.TypeI0, "g1")
						if r.err == nil {
							vrt.Assert(len(r.vals) == 2, "C09.wrong_wiring", "group of two members resolved to", len(r.vals), "values")
						}
					} else {
						r.val, r.err = shared.Get(kit.TypeS[1])
					}
				case opResolveChild:
					r.val, r.err = child.Get(kit.TypeS[0])
				case opResolve2:
					r.val, r.err = shared.Get(kit.TypeS[2])
				case opResolveRoot:
					r.val, r.err = p.Get(kit.TypeS[0])
				case opCreateChild:
					r.scope, r.err = shared.CreateScope(newCtx)
				case opCreateTop:
					r.scope, r.err = p.CreateScope(newCtx)
				case opCloseChild:
					r.err = child.Close()
				case opCloseShared:
					r.err = shared.Close()
				case opCloseProvider:
					r.err = p.Close()
				case opCancelShared:
					cancel()
				}
			})
			res[g] = append(res[g], r)
		}
	}
	vrt.RaceDetect(vrt.Param("race", 0) == 1)
	// G2: up to `g2` involuntary context switches, each in front of any lock
	// acquisition / atomic / sync.Map operation of the container's own code
	vrt.G2(vrt.Param("g2", 0))
	vrt.Go("A", func() { run(0) })
	vrt.Go("B", func() { run(1) })
	vrt.WaitAll()
	vrt.G2(0)
	vrt.Quiesce()
	vrt.Cover("both_done")

	// C13 / C09: a scope handed out by an operation that overlapped the Close of
	// its parent (or of the provider) is closed by it - or was refused
	closedProvider, closedShared := false, false
	for g := 0; g < 2; g++ {
		for _, r := range res[g] {
			if r.panicked {
				continue
			}
			switch r.op {
			case opCloseProvider:
				closedProvider = true
			case opCloseShared, opCancelShared:
				closedShared = true
			}
		}
	}
	for g := 0; g < 2; g++ {
		for _, r := range res[g] {
			if r.scope == nil || r.err != nil {
				continue
			}
			orphan := closedProvider || (closedShared && r.op == opCreateChild)
			if !orphan {
				continue
			}
			_, ge := r.scope.Get(kit.TypeS[1])
			vrt.Assert(isDisposed(ge), "C13.scope_survived_close", "operation", r.op, "returned a scope while its parent / the provider was being closed, and that scope is still open afterwards:", ge)
			vrt.Assert(isDisposed(ge), "C09.scope_survived_close", "operation", r.op, "returned a scope while its parent / the provider was being closed, and that scope is still open afterwards:", ge)
			vrt.Assert(r.scope.Context().Err() != nil, "C14.orphan_scope_context", "a scope handed out during the Close of its parent keeps a live context")
		}
	}

	// per-call obligations (C09 / C13)
	for g := 0; g < 2; g++ {
		for _, r := range res[g] {
			vrt.Assert(!r.panicked, "C09.panic", "operation", r.op, "panicked:", r.pv)
			closing := false
			for _, o := range prog[1-g] {
				if o == opCloseShared || o == opCloseProvider || o == opCancelShared || o == opCloseChild {
					closing = true
				}
			}
			if closing {
				vrt.Assert(!r.panicked, "C13.overlap_panic", "operation", r.op, "overlapping a Close / cancellation panicked:", r.pv)
			}
			if r.panicked {
				continue
			}
			if closing && r.err != nil && r.op != opCloseShared && r.op != opCloseProvider && r.op != opCloseChild {
				// C13: an operation that overlaps a Close completes normally or reports the disposed error
				vrt.Assert(isDisposed(r.err), "C13.overlap_wrong_error", "operation", r.op, "overlapping a Close / cancellation returned", r.err)
			}
			switch r.op {
			case opCloseShared, opCloseProvider, opCloseChild:
				if !closeErr {
					vrt.Assert(r.err == nil, "C09.close_error", "Close returned", r.err)
				}
			case opCancelShared:
			case opCreateChild, opCreateTop:
				vrt.Assert(okOrDocumented(r.err), "C09.undocumented_error", "CreateScope returned", r.err)
				vrt.Assert((r.err == nil) == (r.scope != nil), "C13.overlap_half_initialised", "CreateScope returned neither scope nor error")
			default:
				vrt.Assert(okOrDocumented(r.err), "C09.undocumented_error", "resolution returned", r.err)
				if r.err == nil && r.vals == nil {
					in := kit.InfoOf(r.val)
					vrt.Assert(in != nil, "C13.overlap_half_initialised", "resolution returned no usable value")
				}
			}
		}
	}
	// C02: two successful resolutions of one scoped registration in one scope
	// yield one instance; C01: singletons are never constructed again
	var seen [2]map[int]*kit.Inst
	seen[0], seen[1] = map[int]*kit.Inst{}, map[int]*kit.Inst{}
	for g := 0; g < 2; g++ {
		for _, r := range res[g] {
			if r.err != nil || r.panicked || r.val == nil {
				continue
			}
			in := kit.InfoOf(r.val)
			if in == nil {
				continue
			}
			where := -1
			switch r.op {
			case opResolve0, opResolve1, opResolve2:
				where = 0
			case opResolveChild:
				where = 1
			}
			if where < 0 {
				continue
			}
			if w.Regs[in.Slot].Life == kit.LScoped {
				if prev, ok := seen[where][in.Slot]; ok {
					vrt.Assert(prev == in, "C02.concurrent_two_instances", "two goroutines resolving scoped registration", in.Slot, "in one scope got two instances")
				}
				seen[where][in.Slot] = in
			}
		}
	}
	// C09: what a resolution returned is wired with instances of its own scope:
	// every scoped argument is the instance that scope hands out for it
	for g := 0; g < 2; g++ {
		for _, r := range res[g] {
			if r.err != nil || r.panicked || r.val == nil {
				continue
			}
			var sc godi.Provider
			switch r.op {
			case opResolve0, opResolve1, opResolve2:
				sc = shared
			case opResolveChild:
				sc = child
			case opResolveRoot:
				sc = p
			default:
				continue
			}
			in := kit.InfoOf(r.val)
			if in == nil {
				continue
			}
			var specs []kit.DepSpec
			for _, d := range kit.Deps[in.Slot][w.Regs[in.Slot].Variant] {
				if d.Target >= -1 {
					specs = append(specs, d)
				}
			}
			if wv == 2 && in.Slot == 0 {
				// the group consumer: one argument per member, in registration order
				specs = []kit.DepSpec{{Target: 1}, {Target: 2}}
			}
			vrt.Assert(len(in.Args) == len(specs), "C09.wrong_wiring", "instance of slot", in.Slot, "received", len(in.Args), "arguments")
			if in.HasScope && w.Regs[in.Slot].Life != kit.LSingleton {
				// C18 under interleaving: the injected Scope is the scope the request was issued on
				if s, ok := sc.(godi.Scope); ok {
					vrt.Assert(in.Scope == s, "C18.injected_scope", "instance of slot", in.Slot, "constructed in one scope received another scope")
					vrt.Assert(in.Scope == s, "C09.wrong_wiring", "instance of slot", in.Slot, "constructed in one scope received another scope")
				}
			}
			for j, a := range in.Args {
				if a == nil || j >= len(specs) {
					vrt.Assert(false, "C09.wrong_wiring", "nil argument under concurrency")
					continue
				}
				want := specs[j].Target
				vrt.Assert(a.Slot == want, "C09.wrong_wiring", "argument", j, "of slot", in.Slot, "is an instance of slot", a.Slot, "instead of", want)
				if w.Regs[a.Slot].Life == kit.LScoped {
					cur, err := sc.Get(kit.TypeS[a.Slot])
					if err == nil {
						vrt.Assert(kit.InfoOf(cur) == a || w.Regs[in.Slot].Life != kit.LScoped && false, "C09.wrong_wiring", "instance of slot", in.Slot, "resolved in one scope holds the scoped instance of another scope (slot", a.Slot, ")")
						vrt.Assert(kit.InfoOf(cur) == a, "C02.foreign_scoped_instance", "instance of slot", in.Slot, "resolved in one scope holds a scoped instance (slot", a.Slot, ") that is not the one its own scope hands out")
					}
				}
			}
		}
	}
	// C02: what a scope handed out for a scoped registration is what it keeps
	// handing out (an entry must not fall out of the scope's table)
	for g := 0; g < 2; g++ {
		for _, r := range res[g] {
			if r.err != nil || r.panicked || r.val == nil {
				continue
			}
			in := kit.InfoOf(r.val)
			if in == nil || w.Regs[in.Slot].Life != kit.LScoped {
				continue
			}
			var sc godi.Provider
			switch r.op {
			case opResolve0, opResolve1, opResolve2:
				sc = shared
			case opResolveChild:
				sc = child
			default:
				continue
			}
			again, err := sc.Get(kit.TypeS[in.Slot])
			if err == nil {
				vrt.Assert(kit.InfoOf(again) == in, "C02.lost_instance", "the scope handed out an instance of scoped registration", in.Slot, "and hands out another one afterwards")
			}
		}
	}
	// C12: of several Close calls on ONE node exactly the first reports the
	// failures; calling Close again - also concurrently - returns nil
	if closeErr && maxOps == 1 && prog[0][0] == prog[1][0] && len(res[0]) == 1 && len(res[1]) == 1 {
		a, b := res[0][0], res[1][0]
		if !a.panicked && !b.panicked && (a.op == opCloseShared || a.op == opCloseProvider || a.op == opCloseChild) {
			vrt.Cover("same_node_closed_twice")
			vrt.Assert(a.err == nil || b.err == nil, "C12.concurrent_close_two_reports", "two concurrent Close calls on one node both returned a disposal error:", a.err, "/", b.err)
		}
	}
	// C09: every scope alive has an identity of its own (Scope.ID)
	{
		ids := map[string]bool{}
		note := func(sc godi.Scope) {
			if sc == nil {
				return
			}
			id := sc.ID()
			vrt.Assert(!ids[id], "C09.duplicate_scope_id", "two scopes alive at the same time report the same ID", id)
			ids[id] = true
		}
		note(shared)
		note(child)
		for g := 0; g < 2; g++ {
			for _, r := range res[g] {
				if r.err == nil && !r.panicked {
					note(r.scope)
				}
			}
		}
	}
	// C02: scopes handed out concurrently are scopes of their own: a scoped
	// registration resolved in each of them (now, sequentially) yields distinct instances
	if l1 == kit.LScoped {
		var fresh []*kit.Inst
		probe := func(sc godi.Scope) {
			if sc == nil {
				return
			}
			v, err := sc.Get(kit.TypeS[1])
			if err != nil {
				return
			}
			in := kit.InfoOf(v)
			if in == nil {
				return
			}
			for _, o := range fresh {
				vrt.Assert(o != in, "C02.shared_between_scopes", "two scopes alive at the same time hand out one instance of scoped registration 1")
			}
			fresh = append(fresh, in)
		}
		probe(shared)
		probe(child)
		for g := 0; g < 2; g++ {
			for _, r := range res[g] {
				if r.err == nil && !r.panicked {
					probe(r.scope)
				}
			}
		}
	}
	// C03: two overlapping resolutions of one transient are two instances
	for _, ra := range res[0] {
		for _, rb := range res[1] {
			if ra.err != nil || rb.err != nil || ra.val == nil || rb.val == nil {
				continue
			}
			ia, ib := kit.InfoOf(ra.val), kit.InfoOf(rb.val)
			if ia != nil && ib != nil && w.Regs[ia.Slot].Life == kit.LTransient && ia.Slot == ib.Slot {
				vrt.Assert(ia != ib, "C03.concurrent_shared", "two concurrent resolutions of transient registration", ia.Slot, "received one instance")
			}
			// ... and so are the transient arguments they received
			if ia != nil && ib != nil && ia != ib {
				for _, x := range ia.Args {
					for _, y := range ib.Args {
						if x != nil && x == y && w.Regs[x.Slot].Life == kit.LTransient {
							vrt.Assert(false, "C03.concurrent_shared", "two constructions received the same transient instance of slot", x.Slot)
						}
					}
				}
			}
		}
	}
	for r := 0; r < 3; r++ {
		if w.Regs[r].Life == kit.LSingleton {
			n := 0
			for k := range kit.Calls {
				n += kit.Calls[k][r]
			}
			vrt.Assert(n == 1, "C01.singleton_constructed_again", "singleton constructor ran", n, "times")
		}
	}
	// per scope, a scoped registration is constructed successfully at most once
	// (counted over everything that happened in the shared scope and the child)
	// -- covered by the identity check above for observed values.

	// wind down: everything closed; C10 / C12 obligations under interleaving
	for g := 0; g < 2; g++ {
		for _, r := range res[g] {
			if r.scope != nil {
				r.scope.Close()
			}
		}
	}
	kit.YieldInCtor, kit.YieldInClose = false, false
	if child != nil {
		child.Close()
	}
	shared.Close()
	cancel()
	p.Close()
	vrt.Quiesce()
	for _, in := range kit.Log {
		if disposable(in) {
			vrt.Assert(in.Closed >= 1, "C10.overlap_leak", "instance of slot", in.Slot, "constructed under concurrency was never closed")
			vrt.Assert(in.Closed >= 1, "C12.concurrent_not_closed", "instance of slot", in.Slot, "constructed under concurrency was skipped by every Close (and its failure could never be reported)")
			vrt.Assert(in.Closed <= 1, "C12.concurrent_double_close", "instance of slot", in.Slot, "closed", in.Closed, "times")
		}
	}
	vrt.Assert(vrt.Goroutines() <= 1, "C14.goroutine_left", "goroutines still alive after everything was closed:", vrt.Goroutines())
	_ = errors.Is
}
