package cont

import (
	"github.com/junioryono/godi/v4"
	"github.com/junioryono/godi/v4/zzverif/kit"
	"github.com/junioryono/godi/v4/zzverif/vrt"
)

// H_OptionalFault (C03 / C04): a consumer whose parameter object has an
// optional field of a TRANSIENT type, constructed several times (in several
// scopes); the optional dependency's constructor fails at a symbolic
// invocation. Whatever the container does with that failure (today: the field
// stays nil), no consumer may receive an instance that was already handed to
// another one, and a consumer built while the dependency could not be
// constructed receives nothing for it.
func H_OptionalFault() {
	consLife := []int{kit.LScoped, kit.LTransient}[vrt.Pick("clife", 0, 1)]
	variant := []int{6, 10, 18}[vrt.Pick("shape", 0, 2)] // In{a opt} | In{a; b opt} | In{b opt; a}
	optSlot, optIdx := 1, 0
	switch variant {
	case 10:
		optSlot, optIdx = 2, 1
	case 18:
		optSlot, optIdx = 2, 0
	}
	w := &kit.World{N: 3}
	w.Order = [kit.NS]int{0, 1, 2, 3}
	w.Regs[0] = kit.Reg{Present: true, Life: consLife, Form: kit.IdPlain, Variant: variant}
	w.Regs[1] = kit.Reg{Present: true, Life: kit.LTransient, Form: kit.IdPlain, Variant: 0}
	w.Regs[2] = kit.Reg{Present: true, Life: kit.LTransient, Form: kit.IdPlain, Variant: 0}
	rounds := vrt.Param("rounds", 3)
	kit.FaultSlot = optSlot
	kit.FaultNth = vrt.Pick("fnth", 1, rounds)
	kit.FaultKind = []int{kit.FaultError, kit.FaultPanic}[vrt.Pick("fkind", 0, 1)]
	c := godi.NewCollection()
	errs := w.Register(c)
	vrt.Assume(!addErrs(errs, 3))
	p, err := c.Build()
	vrt.Assume(err == nil)
	var got []*kit.Inst // the optional argument each successfully built consumer received (nil: none)
	var held []*kit.Inst
	for i := 0; i < rounds; i++ {
		sc, e := p.CreateScope(nil)
		vrt.Assume(e == nil)
		failedBefore := kit.Calls[kit.KindCtor][optSlot] - kit.Done[kit.KindCtor][optSlot]
		v, rerr := sc.Get(kit.TypeS[0])
		failedNow := kit.Calls[kit.KindCtor][optSlot]-kit.Done[kit.KindCtor][optSlot] > failedBefore
		if rerr != nil {
			vrt.Cover("consumer_failed")
			sc.Close()
			continue
		}
		in := kit.InfoOf(v)
		vrt.Assert(in != nil && in.Slot == 0 && len(in.ArgCount) > optIdx, "C04.resolved_value_untracked", "consumer without record")
		if in == nil || len(in.ArgCount) <= optIdx {
			sc.Close()
			continue
		}
		vrt.Cover("consumer_built")
		// locate the optional argument among the flattened arguments
		var opt *kit.Inst
		pos := 0
		for j := 0; j < optIdx; j++ {
			if in.ArgCount[j] > 0 {
				pos += in.ArgCount[j]
			}
		}
		if in.ArgCount[optIdx] == 1 && pos < len(in.Args) {
			opt = in.Args[pos]
		}
		if failedNow {
			vrt.Cover("built_around_failure")
			vrt.Assert(opt == nil, "C04.optional_stale", "the optional dependency could not be constructed for this consumer, yet its field holds an instance")
		}
		if opt != nil {
			vrt.Assert(opt.Slot == optSlot, "C04.wrong_producer", "optional field holds an instance of slot", opt.Slot)
			for _, h := range held {
				vrt.Assert(h != opt, "C03.shared", "two consumers received the same transient instance through an optional field")
			}
			held = append(held, opt)
		}
		got = append(got, opt)
		sc.Close()
	}
	_ = got
	p.Close()
}
