package cont

import (
	"reflect"

	"github.com/junioryono/godi/v4"
	"github.com/junioryono/godi/v4/zzverif/kit"
	"github.com/junioryono/godi/v4/zzverif/vrt"
)

// Constructors whose only parameter is a parameter object WITHOUT any
// injectable field.
type eiBare struct{ godi.In }
type eiIgnored struct {
	godi.In
	Skip   *kit.S3 `inject:"-"`
	hidden *kit.S3
}
type eiSvc struct{ shape, n int }
type eiCons struct{ got *eiSvc }

var eiCalls, eiInitCalls int

func eiNewBare(in eiBare) *eiSvc { eiCalls++; return &eiSvc{0, eiCalls} }
func eiNewIgnored(in eiIgnored) *eiSvc {
	eiCalls++
	if in.Skip != nil || in.hidden != nil {
		return &eiSvc{-1, eiCalls}
	}
	return &eiSvc{1, eiCalls}
}
func eiNewCons(s *eiSvc) *eiCons { return &eiCons{s} }
func eiInitBare(in eiBare)       { eiInitCalls++ }

// H_EmptyIn (C08, C04): a registration set without any dependency problem whose
// constructors take a parameter object with no injectable field at all (only
// the embedded godi.In, or only ignored / unexported fields) - as a service of
// any lifetime, with a consumer, and as a scoped initializer. Build accepts the
// set, every identity resolves from a fresh scope, the constructor received an
// untouched parameter object.
func H_EmptyIn() {
	eiCalls, eiInitCalls = 0, 0
	shape := vrt.Pick("shape", 0, 1)
	life := vrt.Pick("life", 0, 2)
	withInit := vrt.Pick("init", 0, 1)
	c := godi.NewCollection()
	ctor := []any{eiNewBare, eiNewIgnored}[shape]
	vrt.Assert(addLife(c, life, ctor) == nil, "C08.valid_registration_rejected", "a constructor taking an empty parameter object was rejected")
	consLife := life
	if life == kit.LSingleton {
		consLife = vrt.Pick("clife", 0, 2)
	} else if life == kit.LTransient {
		consLife = []int{kit.LScoped, kit.LTransient, kit.LSingleton}[vrt.Pick("clife", 0, 2)]
	}
	vrt.Assume(addLife(c, consLife, eiNewCons) == nil)
	if withInit == 1 {
		vrt.Assert(c.AddScoped(eiInitBare) == nil, "C08.valid_registration_rejected", "an initializer taking an empty parameter object was rejected")
	}
	p, err := c.Build()
	vrt.Assert(err == nil, "C08.rejected_valid_set", "Build failed on a set without cycle, conflict or missing dependency (empty parameter object):", err)
	if err != nil {
		return
	}
	vrt.Cover("built")
	sc, e := p.CreateScope(nil)
	vrt.Assert(e == nil, "C08.notfound_after_build", "scope creation failed after a successful Build:", e)
	if e != nil {
		return
	}
	if withInit == 1 {
		vrt.Assert(eiInitCalls == 2, "C02.ctor_count", "the initializer ran", eiInitCalls, "times for the root scope and one scope")
	}
	v, e1 := sc.Get(reflect.TypeOf((*eiSvc)(nil)))
	vrt.Assert(e1 == nil, "C08.notfound_after_build", "the service does not resolve after a successful Build:", e1)
	if e1 == nil {
		s, _ := v.(*eiSvc)
		vrt.Assert(s != nil && s.shape == shape, "C04.ignored_field_touched", "the constructor received a parameter object whose ignored / unexported fields were populated, or the wrong constructor ran")
	}
	cv, e2 := sc.Get(reflect.TypeOf((*eiCons)(nil)))
	vrt.Assert(e2 == nil, "C08.notfound_after_build", "the consumer does not resolve after a successful Build:", e2)
	if e2 == nil {
		vrt.Assert(cv.(*eiCons).got != nil, "C04.argument_missing", "the consumer received nil")
	}
	vrt.Cover("resolved")
	sc.Close()
	p.Close()
}
