package cont

import (
	"reflect"

	"github.com/junioryono/godi/v4"
	"github.com/junioryono/godi/v4/zzverif/kit"
	"github.com/junioryono/godi/v4/zzverif/vrt"
)

// Two service types produced together by one multi-return constructor, and a
// constructor of its own for each of them.
type sibA struct {
	seq int
	by  string
}
type sibB struct {
	seq int
	by  string
}

var (
	sibPairCalls, sibOwnCalls int
	sibSeq                    int
)

func sibPair() (*sibA, *sibB) {
	sibPairCalls++
	sibSeq++
	return &sibA{sibSeq, "pair"}, &sibB{sibSeq, "pair"}
}
func sibNewB() *sibB { sibOwnCalls++; sibSeq++; return &sibB{sibSeq, "own"} }
func sibNewA() *sibA { sibOwnCalls++; sibSeq++; return &sibA{sibSeq, "own"} }

func lifeName(l int) string { return []string{"C01", "C02", "C03"}[l] }

func addLife(c godi.Collection, life int, ctor any, opts ...godi.AddOption) error {
	switch life {
	case kit.LSingleton:
		return c.AddSingleton(ctor, opts...)
	case kit.LScoped:
		return c.AddScoped(ctor, opts...)
	}
	return c.AddTransient(ctor, opts...)
}

// H_ReplacedSibling (C01 / C02 / C03 / C04): one identity that a multi-return
// constructor ALSO produces is given a registration of its own, with a lifetime
// of its own - either because that output was removed and registered again
// (mode 0: Add(pair), Remove(*B), Add(newB)), or because the pair lives under a
// name and the unnamed identity belongs to another constructor (mode 1:
// Add(pair, Name("x")), Add(newA)). A symbolic history of resolutions over the
// provider and two scopes, mixing requests for the pair's outputs and for the
// independently registered identity: the latter must follow ITS lifetime rule
// and come from ITS constructor, whatever the pair did in that scope before.
func H_ReplacedSibling() {
	sibPairCalls, sibOwnCalls, sibSeq = 0, 0, 0
	lp := vrt.Pick("lifepair", 0, 2)
	lo := vrt.Pick("lifeown", 0, 2)
	mode := vrt.Pick("mode", 0, 1)
	L := vrt.Param("L", 3)
	c := godi.NewCollection()
	tA, tB := reflect.TypeOf((*sibA)(nil)), reflect.TypeOf((*sibB)(nil))
	var e1, e2 error
	if mode == 0 {
		e1 = addLife(c, lp, sibPair)
		c.Remove(tB)
		e2 = addLife(c, lo, sibNewB)
	} else {
		e1 = addLife(c, lp, sibPair, godi.Name("x"))
		e2 = addLife(c, lo, sibNewA)
	}
	vrt.Assume(e1 == nil && e2 == nil)
	p, err := c.Build()
	if err != nil {
		vrt.Cover("build_failed")
		return
	}
	vrt.Cover("built")
	s1, ea := p.CreateScope(nil)
	s2, eb := p.CreateScope(nil)
	vrt.Assume(ea == nil && eb == nil)
	nodes := []godi.Provider{p, s1, s2}
	// reference state per registration: the independently registered identity
	// ("own") and the pair (both outputs come from one invocation)
	type track struct {
		life    int
		by      string
		single  int         // seq of the one singleton invocation (0 = none seen)
		perNode map[int]int // node -> seq of that scope's invocation
		seen    map[any]bool
		want    int
	}
	mk := func(life int, by string) *track {
		t := &track{life: life, by: by, perNode: map[int]int{}, seen: map[any]bool{}}
		if life == kit.LSingleton {
			t.want = 1
		}
		return t
	}
	tOwn, tPair := mk(lo, "own"), mk(lp, "pair")
	observe := func(t *track, k int, v any, calls int, what string) {
		by, seq := "", 0
		switch x := v.(type) {
		case *sibA:
			by, seq = x.by, x.seq
		case *sibB:
			by, seq = x.by, x.seq
		}
		pre := lifeName(t.life)
		vrt.Assert(by == t.by, "C04.wrong_producer", "node", k, ":", what, "was produced by the constructor of", by, "instead of", t.by)
		if mode == 0 {
			vrt.Assert(by == t.by, "C17.removed_output_used", "node", k, ":", what, "was produced by", by, ": an output removed from the collection still fills an identity after Build")
		}
		if by != t.by {
			return
		}
		switch t.life {
		case kit.LSingleton:
			vrt.Assert(t.single == 0 || t.single == seq, pre+".identity", "node", k, ":", what, "comes from a second invocation of a singleton constructor")
			t.single = seq
		case kit.LScoped:
			if prev, ok := t.perNode[k]; ok {
				vrt.Assert(prev == seq, pre+".identity", "node", k, ":", what, "comes from a second invocation of a scoped constructor in one scope")
			} else {
				for _, o := range t.perNode {
					vrt.Assert(o != seq, pre+".shared", "node", k, ":", what, ": scoped instance shared between scopes")
				}
				t.want++
			}
			t.perNode[k] = seq
		default:
			vrt.Assert(!t.seen[v], pre+".identity", "node", k, ":", what, ": a transient instance was handed out twice")
			t.seen[v] = true
			t.want++
		}
		vrt.Assert(calls == t.want, pre+".ctor_count", "node", k, ": the constructor behind", what, "ran", calls, "times, the lifetime rule says", t.want)
	}
	own := func(k int) {
		var v any
		var err error
		if mode == 0 {
			v, err = nodes[k].Get(tB)
		} else {
			v, err = nodes[k].Get(tA)
		}
		vrt.Assert(err == nil, "C04.resolve_failed", "the independently registered identity does not resolve at node", k, ":", err)
		if err == nil {
			observe(tOwn, k, v, sibOwnCalls, "the identity registered with its own constructor")
		}
	}
	pair := func(k, which int) {
		// the pair's own outputs: in mode 0 only *A is left (its *B was removed),
		// in mode 1 the first result lives under the name and the second is unkeyed
		var v any
		var err error
		switch {
		case mode == 0:
			v, err = nodes[k].Get(tA)
		case which == 0:
			v, err = nodes[k].GetKeyed(tA, "x")
		default:
			v, err = nodes[k].Get(tB)
		}
		vrt.Assert(err == nil, "C04.resolve_failed", "an output of the multi-return registration does not resolve at node", k, ":", err)
		if err == nil {
			observe(tPair, k, v, sibPairCalls, "an output of the multi-return constructor")
		}
	}
	for s := 0; s < L; s++ {
		k := vrt.Pick("node"+string(rune('0'+s)), 0, 2)
		what := vrt.Pick("what"+string(rune('0'+s)), 0, 2)
		if what == 0 {
			own(k)
		} else {
			pair(k, what-1)
		}
	}
	// closing sweep: the independent identity once more everywhere
	for k := range nodes {
		own(k)
	}
	vrt.Cover("history_done")
	s2.Close()
	s1.Close()
	p.Close()
}
