package cont

import (
	"errors"
	"reflect"

	"github.com/junioryono/godi/v4"
	"github.com/junioryono/godi/v4/zzverif/kit"
	"github.com/junioryono/godi/v4/zzverif/vrt"
)

// H_ValueDisposables (C12 / C10): disposables that are VALUES - several owned
// instances equal as interface values (VS), or of a type that cannot even be
// hashed (US) - every one of them is still closed exactly once, errors are
// reported, nothing panics.
func H_ValueDisposables() {
	life := []int{kit.LScoped, kit.LTransient}[vrt.Pick("life", 0, 1)]
	nVS := vrt.Pick("nvs", 1, 3)
	nUS := vrt.Pick("nus", 0, 2)
	kit.VSCloseErr = vrt.Pick("vserr", 0, 1) == 1
	c := godi.NewCollection()
	add := func(f any) error {
		if life == kit.LScoped {
			return c.AddScoped(f)
		}
		return c.AddTransient(f)
	}
	vrt.Assume(add(kit.NewVS) == nil && add(kit.NewUS) == nil)
	c.AddSingleton(kit.TabC[0][0])
	p, err := c.Build()
	vrt.Assume(err == nil)
	sc, err := p.CreateScope(nil)
	vrt.Assume(err == nil)
	tVS, tUS := reflect.TypeOf(kit.VS{}), reflect.TypeOf(kit.US{})
	for i := 0; i < nVS; i++ {
		_, e := sc.Get(tVS)
		vrt.Assert(e == nil, "C12.value_resolve_failed", e)
	}
	for i := 0; i < nUS; i++ {
		_, e := sc.Get(tUS)
		vrt.Assert(e == nil, "C12.value_resolve_failed", e)
	}
	// one more of each owned by the provider's root scope
	p.Get(tVS)
	madeVS, madeUS := kit.VSMade, kit.USMade
	inScopeVS, inScopeUS := madeVS-1, madeUS
	var cerr error
	panicked, pv := guard(func() { cerr = sc.Close() })
	vrt.Cover("scope_closed")
	vrt.Assert(!panicked, "C12.close_panicked", "Close panicked on a value-typed disposable:", pv)
	vrt.Assert(kit.VSClosed == inScopeVS, "C12.not_all_closed", "scope owned", inScopeVS, "value-typed instances; Close closed", kit.VSClosed)
	vrt.Assert(kit.USClosed == inScopeUS, "C12.not_all_closed", "scope owned", inScopeUS, "unhashable instances; Close closed", kit.USClosed)
	if !panicked {
		var de *godi.DisposalError
		vrt.Assert((cerr != nil) == kit.VSCloseErr, "C12.error_report", "Close returned", cerr, "with failing instances:", kit.VSCloseErr)
		if cerr != nil && errors.As(cerr, &de) {
			vrt.Assert(len(de.Errors) == inScopeVS, "C12.error_count", "DisposalError lists", len(de.Errors), "failures; instances that failed:", inScopeVS)
		}
		vrt.Assert(sc.Close() == nil, "C12.second_close_error")
		vrt.Assert(kit.VSClosed == inScopeVS && kit.USClosed == inScopeUS, "C12.second_close_closes", "repeated Close closed value-typed instances again")
	}
	panicked2, _ := guard(func() { p.Close() })
	vrt.Assert(!panicked2, "C12.close_panicked", "provider Close panicked")
	vrt.Assert(kit.VSClosed == madeVS, "C12.not_all_closed", "after closing everything", kit.VSClosed, "of", madeVS, "value-typed instances were closed")
}
