package cont

import (
	"errors"
	"strings"

	"github.com/junioryono/godi/v4"
	"github.com/junioryono/godi/v4/internal/graph"
	"github.com/junioryono/godi/v4/zzverif/kit"
	"github.com/junioryono/godi/v4/zzverif/vrt"
)

func buildProfile() (lifes, forms, variants []int) {
	all := []int{kit.LSingleton, kit.LScoped, kit.LTransient}
	switch vrt.Param("profile", 0) {
	case 0: // every dependency form on plain identities (cycles, conflicts, missing)
		return all, []int{kit.IdPlain}, []int{0, 1, 2, 3, 6, 11, 13, 15, 18, 19}
	case 1: // keyed / group / interface edges
		return all, []int{kit.IdPlain, kit.IdNamed, kit.IdGroup, kit.IdAs, kit.IdAsGroup}, []int{0, 4, 5, 7, 8, 16, 26}
	case 2: // initializers and multi-output forms
		return all, []int{kit.IdPlain, kit.IdVoid, kit.IdVoidErr, kit.IdMulti, kit.IdResObj}, []int{0, 1, 11, 3}
	case 4: // the same dependency twice, one type under two keys, embedded fields
		return all, []int{kit.IdPlain, kit.IdResObj2}, []int{0, 1, 9, 23, 24, 25}
	case 5: // multi-member interface groups whose members have dependencies of their own (n=4)
		return []int{kit.LSingleton}, []int{kit.IdPlain, kit.IdAsGroup}, []int{0, 1, 8, 11}
	case 6: // a group with several members in front of / behind a plain dependency (n=4)
		return []int{kit.LSingleton, kit.LScoped}, []int{kit.IdPlain, kit.IdAsGroup}, []int{0, 28, 29}
	case 3: // small: plain edges, optional edge (for n=3 order permutations)
		return all, []int{kit.IdPlain}, []int{0, 1, 6, 11}
	}
	panic("bad profile")
}

// identOfNode maps a graph node key back to a model identity.
func identOfNode(k graph.NodeKey) (kit.Ident, bool) {
	id := kit.Ident{Group: k.Group}
	switch {
	case k.Type == kit.TypeI0:
		id.Type = kit.TI0
	case k.Type == kit.TypeI1:
		id.Type = kit.TI1
	default:
		found := false
		for r := 0; r < kit.NS; r++ {
			if k.Type == kit.TypeS[r] {
				id.Type, found = r, true
			}
			if k.Type == kit.TypeA[r] {
				id.Type, found = kit.NS+r, true
			}
		}
		if !found {
			return id, false
		}
	}
	if s, ok := k.Key.(string); ok {
		id.Key = s
	}
	return id, true
}

// regsOfNode: the registrations a reported node may stand for. Group members
// carry a numeric key inside godi; the model identifies them by (type, group).
func regsOfNode(w *kit.World, k graph.NodeKey) []int {
	id, ok := identOfNode(k)
	if !ok {
		return nil
	}
	if id.Group != "" {
		id.Key = ""
	}
	return w.Providers(id)
}

// pathIsModelCycle: every consecutive pair of the reported path is a model
// dependency edge (some registration behind node i declares a dependency whose
// identity is provided by some registration behind node i+1), and it closes.
func pathIsModelCycle(w *kit.World, p []graph.NodeKey) bool {
	if len(p) == 0 {
		return false
	}
	edge := func(a, b graph.NodeKey) bool {
		for _, r := range regsOfNode(w, a) {
			for _, e := range w.DepsOf(r) {
				for _, t := range e.Targets {
					for _, rb := range regsOfNode(w, b) {
						if t == rb {
							return true
						}
					}
				}
			}
		}
		return false
	}
	for i := 0; i+1 < len(p); i++ {
		if !edge(p[i], p[i+1]) {
			return false
		}
	}
	last, first := p[len(p)-1], p[0]
	return last == first || edge(last, first)
}

// H_Build: Build verdicts against the model's dependency relation, and what a
// successfully built provider can then do.
func H_Build() {
	n := vrt.Param("n", 2)
	lifes, forms, variants := buildProfile()
	w := kit.PickWorld(n, lifes, forms, variants)
	vrt.Assume(sane(w))
	vrt.Assume(!w.Duplicate())
	c := godi.NewCollection()
	errs := w.Register(c)
	vrt.Assume(!addErrs(errs, n))
	if vrt.Param("rejected", 0) == 1 {
		// a registration of several descriptors (two aliases, in a group) that is
		// rejected on its second alias: the caller carries on; nothing of it may
		// take part in the Build
		if n > 3 {
			panic("rejected=1 needs slot 3 free")
		}
		rerr := c.AddSingleton(kit.TabC[3][0], godi.As[kit.I0](), godi.As[IX](), godi.Group("g1"))
		vrt.Assert(rerr != nil, "C08.invalid_registration_accepted", "a registration As an interface the service does not implement was accepted")
		vrt.Cover("rejected_add")
	}
	checkBuild(w, c)
}

// H_Rebuild: a collection that has already been built once is edited - one
// registration removed and registered again with another lifetime and another
// dependency shape (the registration count stays the same) - and built again:
// the second Build must judge the edited registration set, exactly as a fresh
// collection would.
func H_Rebuild() {
	n := vrt.Param("n", 2)
	lifes, forms, variants := buildProfile()
	w := kit.PickWorld(n, lifes, forms, variants)
	vrt.Assume(sane(w))
	if vrt.Param("edit", 0) == 1 {
		rebuildLate(w)
		return
	}
	for _, f := range forms {
		if f != kit.IdPlain {
			panic("H_Rebuild edit=0: plain identities only")
		}
	}
	c := godi.NewCollection()
	errs := w.Register(c)
	vrt.Assume(!addErrs(errs, n))
	p0, err0 := c.Build()
	if err0 == nil {
		vrt.Cover("first_build_ok")
		p0.Close()
	} else {
		vrt.Cover("first_build_failed")
	}
	r := vrt.Pick("edit", 0, n-1)
	c.Remove(kit.TypeS[r])
	w.Regs[r].Life = lifes[vrt.Pick("elife", 0, len(lifes)-1)]
	w.Regs[r].Variant = variants[vrt.Pick("evar", 0, len(variants)-1)]
	vrt.Assume(w.Add(c, r) == nil)
	moveLast(w, r)
	kit.Reset()
	checkBuild(w, c)
}

func moveLast(w *kit.World, r int) {
	k := 0
	for j := 0; j < w.N; j++ {
		if w.Order[j] != r {
			w.Order[k] = w.Order[j]
			k++
		}
	}
	w.Order[w.N-1] = r
}

// rebuildLate (H_Rebuild edit=1): the collection is built while one registration
// of the world is still missing; that registration is added afterwards. (1) the
// provider built before never sees it (its constructor never runs there, nothing
// non-scoped there holds a scoped instance); (2) the second Build judges the full
// set like a fresh collection - and agrees with a fresh collection given the same
// registrations.
func rebuildLate(w *kit.World) {
	n := w.N
	vrt.Assume(!w.Duplicate())
	late := vrt.Pick("late", 0, n-1)
	w0 := *w
	w0.Regs[late].Present = false
	c := godi.NewCollection()
	errs := w0.Register(c)
	vrt.Assume(!addErrs(errs, n))
	p0, err0 := c.Build()
	moveLast(w, late)
	vrt.Assume(w.Add(c, late) == nil)
	if err0 == nil {
		vrt.Cover("first_build_ok")
		if sc, e := p0.CreateScope(nil); e == nil {
			for r := 0; r < n; r++ {
				if r == late {
					continue
				}
				for _, id := range w0.Identities(r) {
					resolveReal(sc, id)
				}
			}
			ran := 0
			for k := range kit.Calls {
				ran += kit.Calls[k][late]
			}
			vrt.Assert(ran == 0, "C17.provider_sees_later_registration", "a provider built earlier ran the constructor of a registration added to the collection afterwards")
			vrt.Assert(ran == 0, "C07.later_registration_in_built_provider", "a provider built (and validated) earlier constructs a registration that was added afterwards")
			for _, in := range kit.Log {
				if in.Aux || w.Regs[in.Slot].Life == kit.LScoped {
					continue
				}
				vrt.Assert(!reachesScoped(w, in, 0), "C07.captive_instance", "an instance of a singleton/transient registration holds an instance produced by a scoped registration; slot", in.Slot)
			}
			sc.Close()
		}
		p0.Close()
	} else {
		vrt.Cover("first_build_failed")
	}
	kit.Reset()
	cls := checkBuild(w, c)
	// the same registrations, same order, on a collection without history
	kit.Reset()
	c2 := godi.NewCollection()
	errs2 := w.Register(c2)
	vrt.Assume(!addErrs(errs2, n))
	vrt.Limit("C05.nontermination")
	p2, err2 := c2.Build()
	vrt.Limit("")
	vrt.Assert(kit.Class(err2) == cls, "C06.verdict_depends_on_history", "Build verdict of a collection that was built before (", cls, ") differs from a fresh collection with the same registrations (", kit.Class(err2), ")")
	if err2 == nil {
		p2.Close()
	}
}

// checkBuild: Build verdict of collection c against the model's dependency
// relation of world w, and what a successfully built provider can then do.
func checkBuild(w *kit.World, c godi.Collection) string {
	n := w.N
	cyc := w.Cyclic()
	cycPlain := w.CyclicWithoutGroups()
	conflict, conflictGroupOnly := w.Conflict()
	missing, _, missingNonSingleton := w.MissingDeps()
	vrt.Finding("KF-C05-group-cycle", cyc && !cycPlain)
	vrt.Finding("KF-C07-group-edge", conflict && conflictGroupOnly)
	_ = missingNonSingleton
	vrt.Finding("KF-C08-lazy-missing", w.LazyMissing())
	knownBuildDefects(w)

	checkDeclared(w, c)
	vrt.Limit("C05.nontermination")
	p, err := c.Build()
	vrt.Limit("")
	cls := kit.Class(err)
	vrt.Trace("cyc=%v conflict=%v missing=%v build=%s", cyc, conflict, missing, cls)

	// C05: circular-dependency error exactly when the relation has a cycle
	if cyc {
		vrt.Cover("model_cycle")
		vrt.Assert(cls == "cycle", "C05.missed_cycle", "dependency relation has a cycle but Build reported", cls)
		if err != nil {
			// C15: whatever phase notices it, a circular set fails with an error that errors.As classifies
			var cde *godi.CircularDependencyError
			vrt.Assert(errors.As(err, &cde), "C15.unclassified_cycle", "Build failed on a circular registration set with an error that is not a CircularDependencyError:", err)
		}
	} else {
		vrt.Assert(cls != "cycle", "C05.false_cycle", "Build reported a cycle on an acyclic relation")
		// ... also not in words, through an untyped error
		vrt.Assert(err == nil || !strings.Contains(err.Error(), "circular dependency"), "C05.false_cycle", "Build failed on an acyclic relation with an error that says circular dependency:", err)
	}
	if cls == "cycle" {
		var ce *godi.CircularDependencyError
		errors.As(err, &ce)
		vrt.Assert(pathIsModelCycle(w, ce.Path), "C05.path_not_a_cycle", "reported path is not a cycle of model dependencies")
	}
	// C07: lifetime conflict exactly for captive dependencies (no other defect)
	if !cyc && !missing {
		if conflict {
			vrt.Cover("model_conflict")
			vrt.Assert(cls == "lifetime", "C07.missed_conflict", "a singleton/transient depends on a scoped registration but Build reported", cls)
			if err != nil {
				var lce *godi.LifetimeConflictError
				vrt.Assert(errors.As(err, &lce), "C15.unclassified_conflict", "Build failed on a captive dependency with an error that is not a LifetimeConflictError:", err)
			}
		} else {
			vrt.Assert(cls != "lifetime", "C07.false_conflict", "Build reported a lifetime conflict where only scoped depend on scoped")
		}
	}
	// C08 acceptance: nothing wrong => Build succeeds
	if !cyc && !conflict && !missing {
		vrt.Cover("model_valid")
		vrt.Assert(err == nil, "C08.rejected_valid_set", "Build failed on a registration set without cycle, conflict or missing dependency:", cls)
	}
	if err != nil {
		vrt.Cover("build_failed")
		return cls
	}
	vrt.Cover("built")
	// C08: a successful Build means nothing registered is unresolvable
	// C05: ... and every resolution terminates
	vrt.Limit("C05.nontermination")
	sc, serr := p.CreateScope(nil)
	vrt.Assert(serr == nil || !errors.Is(serr, godi.ErrServiceNotFound), "C08.notfound_after_build", "scope creation reports service-not-found after a successful Build")
	if serr != nil {
		return cls
	}
	var produced []any
	for r := 0; r < n; r++ {
		for _, id := range w.Identities(r) {
			vals, rerr := resolveReal(sc, id)
			vrt.Assert(!errors.Is(rerr, godi.ErrServiceNotFound), "C08.notfound_after_build", "resolving a registered identity after a successful Build reports service-not-found; registration", r)
			if rerr == nil {
				produced = append(produced, vals...)
			}
		}
	}
	vrt.Limit("")
	// C07 (2): nothing long-lived holds something scoped
	for _, in := range kit.Log {
		if in.Aux || w.Regs[in.Slot].Life == kit.LScoped {
			continue
		}
		vrt.Assert(!reachesScoped(w, in, 0), "C07.captive_instance", "an instance of a singleton/transient registration holds an instance produced by a scoped registration; slot", in.Slot)
	}
	_ = produced
	sc.Close()
	p.Close()
	return cls
}

// checkDeclared: what the container recorded as the dependencies of each
// registration is exactly what its constructor declares (every parameter and
// every injectable parameter-object field: type, key, group, optional) - the
// dependency relation that cycle detection and lifetime validation work on.
func checkDeclared(w *kit.World, c godi.Collection) {
	for _, d := range c.ToSlice() {
		r := -1
		for s := 0; s < w.N; s++ {
			if d.Type == kit.TypeS[s] && w.Regs[s].Present && w.Regs[s].Form != kit.IdInstance {
				r = s
			}
			// every output of a multi-output constructor declares the constructor's dependencies
			if d.Type == kit.TypeA[s] && w.Regs[s].Present && w.HasAux(s) {
				r = s
			}
		}
		if r < 0 {
			continue
		}
		want := kit.Deps[r][w.Regs[r].Variant]
		ok := len(d.Dependencies) == len(want)
		for j := 0; ok && j < len(want); j++ {
			dep := d.Dependencies[j]
			var wt any
			switch {
			case want[j].Target >= 0:
				wt = kit.TypeS[want[j].Target]
			case want[j].Target == -1:
				wt = kit.TypeI0
			}
			if wt != nil && dep.Type != wt {
				ok = false
			}
			if (dep.Key == "k1") != (want[j].Form == kit.FormNamed || want[j].Form == kit.FormNamedOptional) || (dep.Key != nil && dep.Key != "k1") {
				ok = false
			}
			if (dep.Group == "g1") != (want[j].Form == kit.FormGroup) {
				ok = false
			}
			if dep.Optional != (want[j].Form == kit.FormOptional || want[j].Form == kit.FormNamedOptional) {
				ok = false
			}
		}
		vrt.Assert(ok, "C05.declared_edge_lost", "registration", r, "declares", len(want), "dependencies; the container recorded", len(d.Dependencies), "(or different ones)")
		vrt.Assert(ok, "C07.declared_dependency_lost", "registration", r, "declares", len(want), "dependencies; the container recorded", len(d.Dependencies), "(or different ones)")
		vrt.Assert(ok, "C06.declared_dependency_lost", "registration", r, "declares", len(want), "dependencies; the container recorded", len(d.Dependencies), "(or different ones) - construction order follows the recorded ones")
		vrt.Assert(ok, "C08.declared_dependency_lost", "registration", r, "declares", len(want), "dependencies; the container recorded", len(d.Dependencies), "(or different ones)")
	}
}

func reachesScoped(w *kit.World, in *kit.Inst, depth int) bool {
	if depth > 6 {
		return false
	}
	for _, a := range in.Args {
		if a == nil {
			continue
		}
		if w.Regs[a.Slot].Life == kit.LScoped {
			return true
		}
		if reachesScoped(w, a, depth+1) {
			return true
		}
	}
	return false
}
