package cont

import (
	"github.com/junioryono/godi/v4"
	"github.com/junioryono/godi/v4/zzverif/kit"
	"github.com/junioryono/godi/v4/zzverif/vrt"
)

// One service type registered under several identities with DIFFERENT lifetimes.

func klPlain() *TagSvc { return &TagSvc{Tag: 12} }
func klN0() *TagSvc    { return &TagSvc{Tag: 10} }
func klN1() *TagSvc    { return &TagSvc{Tag: 11} }

type KLCons struct{ Got int }

type klInPlain struct {
	godi.In
	D *TagSvc
}
type klInN0 struct {
	godi.In
	D *TagSvc `name:"n0"`
}
type klInN1 struct {
	godi.In
	D *TagSvc `name:"n1"`
}
type klInOptN1 struct {
	godi.In
	D *TagSvc `name:"n1" optional:"true"`
}

func tagOf(d *TagSvc) int {
	if d == nil {
		return -1
	}
	return d.Tag
}

func klConsPlain(in klInPlain) *KLCons { return &KLCons{Got: tagOf(in.D)} }
func klConsN0(in klInN0) *KLCons       { return &KLCons{Got: tagOf(in.D)} }
func klConsN1(in klInN1) *KLCons       { return &KLCons{Got: tagOf(in.D)} }
func klConsOptN1(in klInOptN1) *KLCons { return &KLCons{Got: tagOf(in.D)} }

func addWithLife(c godi.Collection, life int, f any, opts ...godi.AddOption) error {
	switch life {
	case kit.LSingleton:
		return c.AddSingleton(f, opts...)
	case kit.LScoped:
		return c.AddScoped(f, opts...)
	}
	return c.AddTransient(f, opts...)
}

// H_KeyedLifetimes (C06 / C07 / C08): type T is registered unkeyed, as "n0"
// and as "n1" (each present or not, each with its own symbolic lifetime); one
// consumer of symbolic lifetime depends on exactly one of those identities
// (or optionally on "n1"). The verdict depends only on the identity the
// consumer names - never on the other registrations of the same type - and is
// the same for two registration orders and two map-order schemes.
func H_KeyedLifetimes() {
	present := vrt.Pick("present", 1, 7) // bit0 unkeyed, bit1 n0, bit2 n1
	var life [3]int
	for i := range life {
		if present&(1<<i) != 0 {
			life[i] = vrt.Pick("life"+string(rune('0'+i)), 0, 2)
		}
	}
	consLife := vrt.Pick("clife", 0, 2)
	// the SAME consumer constructor may be registered a second time, under the
	// name "c2", with a lifetime of its own (3 = not registered twice)
	consLife2 := vrt.Pick("clife2", 0, 3)
	target := vrt.Pick("target", 0, 3) // 0 unkeyed, 1 n0, 2 n1, 3 optional n1
	tIdx := target
	if target == 3 {
		tIdx = 2
	}
	registered := present&(1<<tIdx) != 0
	vrt.Assume(registered || target == 3) // a missing required dependency is C08's other half (H_Build)
	conflict := registered && (consLife != kit.LScoped || (consLife2 != 3 && consLife2 != kit.LScoped)) && life[tIdx] == kit.LScoped
	wantTag := -1
	if registered {
		wantTag = []int{12, 10, 11}[tIdx]
	}

	build := func(order int) (string, int) {
		c := godi.NewCollection()
		regs := []func() error{
			func() error { return addWithLife(c, life[0], klPlain) },
			func() error { return addWithLife(c, life[1], klN0, godi.Name("n0")) },
			func() error { return addWithLife(c, life[2], klN1, godi.Name("n1")) },
			func() error {
				return addWithLife(c, consLife, []any{klConsPlain, klConsN0, klConsN1, klConsOptN1}[target])
			},
			func() error {
				return addWithLife(c, consLife2, []any{klConsPlain, klConsN0, klConsN1, klConsOptN1}[target], godi.Name("c2"))
			},
		}
		perm := [][]int{{0, 1, 2, 3, 4}, {4, 3, 2, 1, 0}, {1, 3, 4, 0, 2}, {2, 0, 4, 3, 1}}[order]
		for _, k := range perm {
			if k < 3 && present&(1<<k) == 0 {
				continue
			}
			if k == 4 && consLife2 == 3 {
				continue
			}
			vrt.Assume(regs[k]() == nil)
		}
		p, err := c.Build()
		cls := kit.Class(err)
		got := -2
		if err == nil {
			sc, e := p.CreateScope(nil)
			if e == nil {
				v, e2 := godi.Resolve[*KLCons](sc)
				vrt.Assert(e2 == nil, "C08.notfound_after_build", "the consumer does not resolve after a successful Build:", e2)
				if e2 == nil {
					got = v.Got
				}
				if consLife2 != 3 {
					v2, e3 := godi.ResolveKeyed[*KLCons](sc, "c2")
					vrt.Assert(e3 == nil, "C08.notfound_after_build", "the second registration of the consumer does not resolve after a successful Build:", e3)
					if e3 == nil {
						vrt.Assert(v2.Got == wantTag, "C04.wrong_key_injected", "the second registration of the consumer received tag", v2.Got, "but the identity it names holds", wantTag)
					}
				}
				sc.Close()
			}
			p.Close()
		}
		return cls, got
	}
	cls1, got1 := build(0)
	vrt.SetMapOrder(vrt.Pick("order2", 0, vrt.Param("order_schemes", 2)-1))
	o2 := vrt.Pick("perm2", 0, 3)
	cls2, got2 := build(o2)
	vrt.Trace("conflict=%v cls=%s/%s got=%d/%d", conflict, cls1, cls2, got1, got2)
	vrt.Cover("built_twice")
	vrt.Assert(cls1 == cls2, "C06.verdict_differs", "Build verdict depends on registration order or iteration order:", cls1, "vs", cls2)
	for _, cls := range []string{cls1, cls2} {
		if conflict {
			vrt.Cover("model_conflict")
			vrt.Assert(cls == "lifetime", "C07.missed_conflict", "the consumer (singleton/transient) names a scoped registration but Build reported", cls)
		} else {
			vrt.Assert(cls != "lifetime", "C07.false_conflict", "Build reported a lifetime conflict although the identity the consumer names is not scoped (another registration of the same type is)")
			vrt.Assert(cls == "ok", "C08.rejected_valid_set", "Build failed on a valid registration set:", cls)
		}
	}
	for _, got := range []int{got1, got2} {
		if got != -2 {
			vrt.Assert(got == wantTag, "C04.wrong_key_injected", "the consumer received tag", got, "but the identity it names holds", wantTag)
			if conflict {
				vrt.Assert(false, "C07.captive_instance", "a singleton/transient consumer was built with a scoped dependency")
			}
		}
	}
}
