package cont

import (
	"reflect"

	"github.com/junioryono/godi/v4"
	"github.com/junioryono/godi/v4/zzverif/vrt"
)

// Tagged services for the function-kind dimension of C04: what matters is
// WHICH function value ran, so every constructor stamps its own tag.
type TagSvc struct{ Tag int }
type TagSvc2 struct{ Tag int }

//go:noinline
func closureCtor(tag int) func() *TagSvc {
	return func() *TagSvc { return &TagSvc{Tag: tag} }
}

//go:noinline
func closureCtorDep(tag int) func(*TagSvc2) *TagSvc {
	return func(d *TagSvc2) *TagSvc { return &TagSvc{Tag: tag + d.Tag} }
}

type factory struct{ tag int }

func (f *factory) Make() *TagSvc { return &TagSvc{Tag: f.tag} }

//go:noinline
func genCtor[T any](tag int) func() *TagSvc {
	return func() *TagSvc { var z T; _ = z; return &TagSvc{Tag: tag} }
}

type markA struct{}
type markB struct{}

func topA() *TagSvc { return &TagSvc{Tag: 1} }
func topB() *TagSvc { return &TagSvc{Tag: 2} }

func madeCtor(tag int) any {
	ft := reflect.TypeOf((func() *TagSvc)(nil))
	return reflect.MakeFunc(ft, func(args []reflect.Value) []reflect.Value {
		return []reflect.Value{reflect.ValueOf(&TagSvc{Tag: tag})}
	}).Interface()
}

// madeCtor2 has another signature than madeCtor but, natively, the same code pointer
func madeCtor2(tag int) any {
	ft := reflect.TypeOf((func() *TagSvc2)(nil))
	return reflect.MakeFunc(ft, func(args []reflect.Value) []reflect.Value {
		return []reflect.Value{reflect.ValueOf(&TagSvc2{Tag: tag})}
	}).Interface()
}

// Two constructors whose parameter objects are function-local types of the same
// name (reflect's String() is "cont.params" for both) but with different tags.
func localParamsX() any {
	type params struct {
		godi.In
		D *TagSvc2 `name:"x"`
	}
	return func(p params) *TagSvc { return &TagSvc{Tag: 100 + p.D.Tag} }
}

func localParamsY() any {
	type params struct {
		godi.In
		D *TagSvc2 `name:"y"`
	}
	return func(p params) *TagSvc { return &TagSvc{Tag: 200 + p.D.Tag} }
}

func localParamsOpt() any {
	type params struct {
		godi.In
		D *TagSvc2 `optional:"true"`
	}
	return func(p params) *TagSvc {
		if p.D == nil {
			return &TagSvc{Tag: 200}
		}
		return &TagSvc{Tag: 200 + p.D.Tag}
	}
}

// H_FuncKinds (C04): two registrations whose constructors are function values
// of one kind - possibly sharing their code - under two names; each identity
// must be produced by exactly the function value registered for it.
func H_FuncKinds() {
	kind := vrt.Pick("kind", 0, 8)
	life := vrt.Pick("life", 0, 2)
	order := vrt.Pick("order", 0, 1)
	var fa, fb any
	tagA, tagB := 1, 2
	switch kind {
	case 0:
		fa, fb = topA, topB
	case 1:
		fa, fb = closureCtor(1), closureCtor(2)
	case 2:
		fa, fb = (&factory{1}).Make, (&factory{2}).Make
	case 3:
		fa, fb = genCtor[markA](1), genCtor[markB](2)
	case 4:
		fa, fb = madeCtor(1), madeCtor(2)
	case 5: // the same closure kind consuming a dependency
		fa, fb = closureCtorDep(10), closureCtorDep(20)
		tagA, tagB = 17, 27
	case 6: // one generic instantiation twice: same code, different captured state
		fa, fb = genCtor[markA](1), genCtor[markA](2)
	case 7: // parameter objects of two local types with one name, fields keyed differently
		fa, fb = localParamsX(), localParamsY()
		tagA, tagB = 101, 202
	case 8: // ... one keyed, the other optional and unregistered
		fa, fb = localParamsX(), localParamsOpt()
		tagA, tagB = 101, 200
	}
	vrt.Finding("KF-C04-shared-code-pointer", kind == 1 || kind == 2 || kind == 4 || kind == 5 || kind == 6)
	c := godi.NewCollection()
	add := func(f any, name string) error {
		switch life {
		case 0:
			return c.AddSingleton(f, godi.Name(name))
		case 1:
			return c.AddScoped(f, godi.Name(name))
		}
		return c.AddTransient(f, godi.Name(name))
	}
	if kind == 7 || kind == 8 {
		vrt.Assert(c.AddSingleton(&TagSvc2{Tag: 1}, godi.Name("x")) == nil && c.AddSingleton(&TagSvc2{Tag: 2}, godi.Name("y")) == nil, "C04.funckind_rejected")
	}
	if kind == 5 {
		// the dependency itself comes from a MakeFunc constructor of another signature
		vrt.Assert(c.AddSingleton(madeCtor2(7)) == nil, "C04.funckind_rejected")
	}
	var e1, e2 error
	if order == 0 {
		e1, e2 = add(fa, "a"), add(fb, "b")
	} else {
		e2, e1 = add(fb, "b"), add(fa, "a")
	}
	vrt.Assert(e1 == nil && e2 == nil, "C04.funckind_rejected", "registration of a function value was rejected:", e1, e2)
	if e1 != nil || e2 != nil {
		return
	}
	p, err := c.Build()
	vrt.Assert(err == nil, "C04.funckind_build_failed", "Build failed:", err)
	if err != nil {
		return
	}
	sc, err := p.CreateScope(nil)
	if err != nil {
		return
	}
	va, ea := godi.ResolveKeyed[*TagSvc](sc, "a")
	vb, eb := godi.ResolveKeyed[*TagSvc](sc, "b")
	vrt.Cover("resolved")
	vrt.Assert(ea == nil && eb == nil, "C04.funckind_resolve_failed", "resolution failed:", ea, eb)
	if ea == nil && eb == nil {
		vrt.Trace("kind=%d a=%d b=%d", kind, va.Tag, vb.Tag)
		vrt.Assert(va.Tag == tagA, "C04.wrong_function_value", "identity a was produced by another function value: tag", va.Tag, "want", tagA, "kind", kind)
		vrt.Assert(vb.Tag == tagB, "C04.wrong_function_value", "identity b was produced by another function value: tag", vb.Tag, "want", tagB, "kind", kind)
	}
	sc.Close()
	p.Close()
}

// H_SharedCodeConc (C09): transient services whose constructors are
// reflect.MakeFunc values of two different signatures (natively one code
// pointer for all of them) resolved by two goroutines in their own scopes,
// alternating between the two services; happens-before race detector on.
func H_SharedCodeConc() {
	life := vrt.Pick("life", 1, 2)
	mode := vrt.Pick("mode", 0, 1)
	c := godi.NewCollection()
	add := func(f any, opts ...godi.AddOption) error {
		if life == 1 {
			return c.AddScoped(f, opts...)
		}
		return c.AddTransient(f, opts...)
	}
	if mode == 0 {
		// two signatures, one code pointer: the analysis cache keeps being rewritten
		vrt.Assume(add(madeCtor(1)) == nil && add(madeCtor2(2)) == nil)
	} else {
		// closures of one literal under two names, each consuming a dependency whose
		// constructor yields: another goroutine runs between "pick the function" and "call it"
		vrt.Assume(add(closureCtorDep(10), godi.Name("a")) == nil && add(closureCtorDep(20), godi.Name("b")) == nil)
		vrt.Assume(c.AddTransient(func() *TagSvc2 { vrt.Yield(); return &TagSvc2{Tag: 7} }) == nil)
	}
	p, err := c.Build()
	vrt.Assert(err == nil, "C09.shared_code_build_failed", "Build failed:", err)
	if err != nil {
		return
	}
	var sc [2]godi.Scope
	for g := range sc {
		s, e := p.CreateScope(nil)
		vrt.Assume(e == nil)
		sc[g] = s
	}
	rounds := vrt.Param("rounds", 2)
	var bad [2]int
	var failed [2]error
	var panicked [2]bool
	run := func(g int) {
		panicked[g], _ = guard(func() {
			for k := 0; k < rounds; k++ {
				first := (g+k)%2 == 0
				for j := 0; j < 2; j++ {
					switch {
					case mode == 1:
						// goroutine 0 asks for a, goroutine 1 for b, alternating later
						name, want := "a", 17
						if first != (j == 0) {
							name, want = "b", 27
						}
						v, e := godi.ResolveKeyed[*TagSvc](sc[g], name)
						if e != nil {
							failed[g] = e
						} else if v.Tag != want {
							bad[g]++
						}
					case first == (j == 0):
						v, e := godi.Resolve[*TagSvc](sc[g])
						if e != nil {
							failed[g] = e
						} else if v.Tag != 1 {
							bad[g]++
						}
					default:
						v, e := godi.Resolve[*TagSvc2](sc[g])
						if e != nil {
							failed[g] = e
						} else if v.Tag != 2 {
							bad[g]++
						}
					}
					vrt.Yield()
				}
			}
		})
	}
	vrt.RaceDetect(vrt.Param("race", 1) == 1)
	vrt.G2(vrt.Param("g2", 0))
	vrt.Go("A", func() { run(0) })
	vrt.Go("B", func() { run(1) })
	vrt.WaitAll()
	vrt.G2(0)
	vrt.Cover("both_done")
	for g := 0; g < 2; g++ {
		vrt.Assert(!panicked[g], "C09.panic", "goroutine", g, "panicked while resolving")
		vrt.Assert(failed[g] == nil, "C09.undocumented_error", "goroutine", g, "resolution failed:", failed[g])
		vrt.Assert(bad[g] == 0, "C09.wrong_wiring", "goroutine", g, "received a service built by the other constructor")
		vrt.Assert(bad[g] == 0, "C04.wrong_function_value", "goroutine", g, "received a service built by a function value registered for another identity (concurrent resolutions)")
	}
	sc[0].Close()
	sc[1].Close()
	p.Close()
}
