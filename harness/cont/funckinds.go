package cont

import (
	"reflect"

	"github.com/junioryono/godi/v4"
	"github.com/junioryono/godi/v4/zzverif/vrt"
)

// Tagged services for the function-kind dimension of C04: what matters is
// WHICH function value ran, so every constructor stamps its own tag.
type TagSvc struct{ Tag int }
type TagSvc2 struct{ Tag int }

//go:noinline
func closureCtor(tag int) func() *TagSvc {
	return func() *TagSvc { return &TagSvc{Tag: tag} }
}

//go:noinline
func closureCtorDep(tag int) func(*TagSvc2) *TagSvc {
	return func(d *TagSvc2) *TagSvc { return &TagSvc{Tag: tag + d.Tag} }
}

type factory struct{ tag int }

func (f *factory) Make() *TagSvc { return &TagSvc{Tag: f.tag} }

//go:noinline
func genCtor[T any](tag int) func() *TagSvc {
	return func() *TagSvc { var z T; _ = z; return &TagSvc{Tag: tag} }
}

type markA struct{}
type markB struct{}

func topA() *TagSvc { return &TagSvc{Tag: 1} }
func topB() *TagSvc { return &TagSvc{Tag: 2} }

func madeCtor(tag int) any {
	ft := reflect.TypeOf((func() *TagSvc)(nil))
	return reflect.MakeFunc(ft, func(args []reflect.Value) []reflect.Value {
		return []reflect.Value{reflect.ValueOf(&TagSvc{Tag: tag})}
	}).Interface()
}

// madeCtor2 has another signature than madeCtor but, natively, the same code pointer
func madeCtor2(tag int) any {
	ft := reflect.TypeOf((func() *TagSvc2)(nil))
	return reflect.MakeFunc(ft, func(args []reflect.Value) []reflect.Value {
		return []reflect.Value{reflect.ValueOf(&TagSvc2{Tag: tag})}
	}).Interface()
}

// H_FuncKinds (C04): two registrations whose constructors are function values
// of one kind - possibly sharing their code - under two names; each identity
// must be produced by exactly the function value registered for it.
func H_FuncKinds() {
	kind := vrt.Pick("kind", 0, 6)
	life := vrt.Pick("life", 0, 2)
	order := vrt.Pick("order", 0, 1)
	var fa, fb any
	tagA, tagB := 1, 2
	switch kind {
	case 0:
		fa, fb = topA, topB
	case 1:
		fa, fb = closureCtor(1), closureCtor(2)
	case 2:
		fa, fb = (&factory{1}).Make, (&factory{2}).Make
	case 3:
		fa, fb = genCtor[markA](1), genCtor[markB](2)
	case 4:
		fa, fb = madeCtor(1), madeCtor(2)
	case 5: // the same closure kind consuming a dependency
		fa, fb = closureCtorDep(10), closureCtorDep(20)
		tagA, tagB = 17, 27
	case 6: // one generic instantiation twice: same code, different captured state
		fa, fb = genCtor[markA](1), genCtor[markA](2)
	}
	vrt.Finding("KF-C04-shared-code-pointer", kind == 1 || kind == 2 || kind == 4 || kind == 5 || kind == 6)
	c := godi.NewCollection()
	add := func(f any, name string) error {
		switch life {
		case 0:
			return c.AddSingleton(f, godi.Name(name))
		case 1:
			return c.AddScoped(f, godi.Name(name))
		}
		return c.AddTransient(f, godi.Name(name))
	}
	if kind == 5 {
		// the dependency itself comes from a MakeFunc constructor of another signature
		vrt.Assert(c.AddSingleton(madeCtor2(7)) == nil, "C04.funckind_rejected")
	}
	var e1, e2 error
	if order == 0 {
		e1, e2 = add(fa, "a"), add(fb, "b")
	} else {
		e2, e1 = add(fb, "b"), add(fa, "a")
	}
	vrt.Assert(e1 == nil && e2 == nil, "C04.funckind_rejected", "registration of a function value was rejected:", e1, e2)
	if e1 != nil || e2 != nil {
		return
	}
	p, err := c.Build()
	vrt.Assert(err == nil, "C04.funckind_build_failed", "Build failed:", err)
	if err != nil {
		return
	}
	sc, err := p.CreateScope(nil)
	if err != nil {
		return
	}
	va, ea := godi.ResolveKeyed[*TagSvc](sc, "a")
	vb, eb := godi.ResolveKeyed[*TagSvc](sc, "b")
	vrt.Cover("resolved")
	vrt.Assert(ea == nil && eb == nil, "C04.funckind_resolve_failed", "resolution failed:", ea, eb)
	if ea == nil && eb == nil {
		vrt.Trace("kind=%d a=%d b=%d", kind, va.Tag, vb.Tag)
		vrt.Assert(va.Tag == tagA, "C04.wrong_function_value", "identity a was produced by another function value: tag", va.Tag, "want", tagA, "kind", kind)
		vrt.Assert(vb.Tag == tagB, "C04.wrong_function_value", "identity b was produced by another function value: tag", vb.Tag, "want", tagB, "kind", kind)
	}
	sc.Close()
	p.Close()
}
