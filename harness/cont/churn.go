package cont

import (
	"reflect"

	"github.com/junioryono/godi/v4"
	"github.com/junioryono/godi/v4/zzverif/vrt"
)

// A disposable scoped service with creation / close stamps.
type chD struct {
	made, closed, closedAt int
}

var (
	chSeq int
	chAll []*chD
)

func newChD() *chD {
	chSeq++
	d := &chD{made: chSeq}
	chAll = append(chAll, d)
	return d
}

func (d *chD) Close() error {
	d.closed++
	chSeq++
	d.closedAt = chSeq
	return nil
}

// H_ScopeChurn (C11 / C10 / C13): the children of one scope come and go - a
// symbolic history of L operations {create a child and use it, close the j-th
// child created so far} - and then the parent (or the provider) is closed.
// Whatever the history, the final Close reaches every child that is still open
// (exactly once, descendants before the parent's own instances), leaves the
// already closed ones alone, and every child reports disposed afterwards.
func H_ScopeChurn() {
	chSeq, chAll = 0, nil
	L := vrt.Param("L", 5)
	c := godi.NewCollection()
	vrt.Assume(c.AddScoped(newChD) == nil)
	p, err := c.Build()
	vrt.Assume(err == nil)
	tD := reflect.TypeOf((*chD)(nil))
	top := vrt.Pick("top", 0, 1) // the churning scope hangs off the provider, or off another scope
	var outer godi.Scope
	var parent godi.Scope
	if top == 0 {
		parent, err = p.CreateScope(nil)
	} else {
		outer, err = p.CreateScope(nil)
		vrt.Assume(err == nil)
		parent, err = outer.CreateScope(nil)
	}
	vrt.Assume(err == nil)
	pv, err := parent.Get(tD)
	vrt.Assume(err == nil)
	pd := pv.(*chD)

	type kid struct {
		sc     godi.Scope
		d      *chD
		closed bool
	}
	var kids []*kid
	for s := 0; s < L; s++ {
		op := vrt.Pick("op"+string(rune('0'+s)), 0, 3)
		if op == 0 {
			sc, err := parent.CreateScope(nil)
			vrt.Assert(err == nil, "C09.undocumented_error", "CreateScope on an open scope failed:", err)
			if err != nil {
				return
			}
			v, err := sc.Get(tD)
			vrt.Assert(err == nil, "C04.resolve_failed", "resolution in a fresh child scope failed:", err)
			if err != nil {
				return
			}
			kids = append(kids, &kid{sc: sc, d: v.(*chD)})
			continue
		}
		j := op - 1
		vrt.Assume(j < len(kids))
		vrt.Cover("close_child")
		e := kids[j].sc.Close()
		vrt.Assert(e == nil, "C12.close_error", "closing a child returned", e)
		kids[j].closed = true
		for i, k := range kids {
			if k.closed {
				vrt.Assert(k.d.closed == 1, "C10.closed_count", "step", s, ": the instance of closed child", i, "was closed", k.d.closed, "times")
			} else {
				vrt.Assert(k.d.closed == 0, "C10.closed_early", "step", s, ": the instance of open child", i, "was closed when its sibling", j, "closed")
				_, e := k.sc.Get(tD)
				vrt.Assert(e == nil, "C13.open_scope_refuses", "step", s, ": open child", i, "stopped working when its sibling", j, "closed:", e)
			}
		}
		vrt.Assert(pd.closed == 0, "C10.closed_early", "step", s, ": the parent's instance was closed by a child's Close")
	}
	vrt.Assume(len(kids) > 0)
	openKids := 0
	for _, k := range kids {
		if !k.closed {
			openKids++
		}
	}
	if openKids > 0 {
		vrt.Cover("open_children_at_close")
	}
	// the final close
	switch vrt.Pick("closer", 0, 1+top) {
	case 0:
		parent.Close()
	case 1:
		p.Close()
	default:
		outer.Close()
	}
	vrt.Assert(pd.closed == 1, "C10.closed_count", "the parent's instance was closed", pd.closed, "times by the final Close")
	for i, k := range kids {
		vrt.Assert(k.d.closed == 1, "C10.closed_count", "after the final Close the instance of child", i, "was closed", k.d.closed, "times")
		vrt.Assert(k.d.closed >= 1, "C11.descendant_not_reached", "the final Close did not reach child", i, "(still open)")
		if !k.closed && k.d.closed == 1 && pd.closed == 1 {
			vrt.Assert(k.d.closedAt < pd.closedAt, "C11.ancestor_before_descendant", "the parent's own instance was closed before the instance of its open child", i)
		}
		_, e := k.sc.Get(tD)
		vrt.Assert(isDisposed(e), "C13.subtree_open_after_close", "child", i, "still resolves after its parent was closed:", e)
		_, e = k.sc.CreateScope(nil)
		vrt.Assert(isDisposed(e), "C13.subtree_open_after_close", "child", i, "still creates scopes after its parent was closed:", e)
	}
	vrt.Cover("closed")
	p.Close()
	if outer != nil {
		outer.Close()
	}
	for _, d := range chAll {
		vrt.Assert(d.closed == 1, "C10.closed_count", "at the very end an instance was closed", d.closed, "times")
	}
}
