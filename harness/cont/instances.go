package cont

import (
	"reflect"

	"github.com/junioryono/godi/v4"
	"github.com/junioryono/godi/v4/zzverif/kit"
	"github.com/junioryono/godi/v4/zzverif/vrt"
)

// InstIn consumes registered values of one Go type under several identities.
type InstIn struct {
	godi.In
	Plain *kit.S0   `optional:"true"`
	N0    *kit.S0   `name:"n0" optional:"true"`
	N1    *kit.S0   `name:"n1" optional:"true"`
	N2    *kit.S0   `name:"n2" optional:"true"`
	G     []*kit.S0 `group:"g1"`
}

type InstProbe struct{ In InstIn }

func newInstProbe(in InstIn) *InstProbe { return &InstProbe{In: in} }

const (
	instPlain = iota
	instNamed
	instGroup
)

// H_Instances (C01): K values of ONE Go type registered as instances under
// different identities (unkeyed, names, members of a group), optionally one of
// them removed and replaced by a new value before Build. Every identity must
// resolve - from the provider, a scope, a nested scope, and as an injected
// dependency - to exactly the value registered for it, and to nothing else.
func H_Instances() {
	K := vrt.Pick("k", 2, 3)
	vals := make([]*kit.S0, 0, 4)
	how := make([]int, 0, 4)
	c := godi.NewCollection()
	names := []string{"n0", "n1", "n2"}
	plainUsed := false
	register := func(i int, v *kit.S0) error {
		switch how[i] {
		case instPlain:
			return c.AddSingleton(v)
		case instNamed:
			return c.AddSingleton(v, godi.Name(names[i]))
		}
		return c.AddSingleton(v, godi.Group("g1"))
	}
	for i := 0; i < K; i++ {
		h := vrt.Pick("how"+string(rune('0'+i)), 0, 2)
		if h == instPlain {
			vrt.Assume(!plainUsed)
			plainUsed = true
		}
		how = append(how, h)
		vals = append(vals, kit.NewInstance(0).(*kit.S0))
		err := register(i, vals[i])
		vrt.Assert(err == nil, "C01.instance_rejected", "registration of value", i, "was rejected:", err)
		if err != nil {
			return
		}
	}
	// optionally replace one non-group value by a new one before Build
	var removed *kit.S0
	if rep := vrt.Pick("replace", 0, K); rep < K && how[rep] != instGroup {
		vrt.Cover("replaced")
		removed = vals[rep]
		if how[rep] == instPlain {
			c.Remove(kit.TypeS[0])
		} else {
			c.RemoveKeyed(kit.TypeS[0], names[rep])
		}
		vals[rep] = kit.NewInstance(0).(*kit.S0)
		err := register(rep, vals[rep])
		vrt.Assert(err == nil, "C01.instance_rejected", "re-registration after Remove was rejected:", err)
		if err != nil {
			return
		}
	}
	vrt.Assert(c.AddScoped(newInstProbe) == nil, "C01.instance_rejected", "consumer rejected")
	p, err := c.Build()
	vrt.Assert(err == nil, "C01.instance_build_failed", "Build failed:", err)
	if err != nil {
		return
	}
	sc, e1 := p.CreateScope(nil)
	vrt.Assume(e1 == nil)
	ch, e2 := sc.CreateScope(nil)
	vrt.Assume(e2 == nil)
	var group []*kit.S0
	for i := 0; i < K; i++ {
		if how[i] == instGroup {
			group = append(group, vals[i])
		}
	}
	for ni, node := range []godi.Provider{p, sc, ch} {
		for round := 0; round < 2; round++ {
			for i := 0; i < K; i++ {
				var v any
				var err error
				switch how[i] {
				case instPlain:
					v, err = node.Get(kit.TypeS[0])
				case instNamed:
					v, err = node.GetKeyed(kit.TypeS[0], names[i])
				default:
					continue
				}
				vrt.Assert(err == nil, "C01.instance_unresolvable", "node", ni, "value", i, "does not resolve:", err)
				if err != nil {
					continue
				}
				got, _ := v.(*kit.S0)
				vrt.Assert(got == vals[i], "C01.instance_identity", "node", ni, "identity of value", i, "resolved to another object than the registered value")
				vrt.Assert(removed == nil || got != removed, "C01.instance_removed_value", "a removed value is still handed out")
			}
			gs, err := node.GetGroup(kit.TypeS[0], "g1")
			vrt.Assert(err == nil && len(gs) == len(group), "C01.instance_group", "node", ni, "group has", len(gs), "members, registered", len(group), err)
			if err == nil && len(gs) == len(group) {
				for j := range gs {
					got, _ := gs[j].(*kit.S0)
					vrt.Assert(got == group[j], "C01.instance_group", "node", ni, "group member", j, "is not the value registered at that position")
				}
			}
		}
	}
	// injected
	for ni, node := range []godi.Provider{sc, ch} {
		pv, err := node.Get(reflect.TypeOf((*InstProbe)(nil)))
		vrt.Assert(err == nil, "C01.instance_unresolvable", "consumer does not resolve:", err)
		if err != nil {
			continue
		}
		in := pv.(*InstProbe).In
		slots := []*kit.S0{in.N0, in.N1, in.N2}
		for i := 0; i < K; i++ {
			switch how[i] {
			case instPlain:
				vrt.Assert(in.Plain == vals[i], "C01.instance_identity", "node", ni, "injected unkeyed value is not the registered one")
			case instNamed:
				vrt.Assert(slots[i] == vals[i], "C01.instance_identity", "node", ni, "injected value", i, "is not the registered one")
			}
		}
		ok := len(in.G) == len(group)
		for j := 0; ok && j < len(group); j++ {
			ok = in.G[j] == group[j]
		}
		vrt.Assert(ok, "C01.instance_group", "node", ni, "injected group differs from the registered values")
	}
	vrt.Cover("resolved")
	ch.Close()
	sc.Close()
	p.Close()
}
