package cont

import (
	"github.com/junioryono/godi/v4"
	"github.com/junioryono/godi/v4/zzverif/kit"
	"github.com/junioryono/godi/v4/zzverif/vrt"
)

// permutations of up to 4 registrations, as index tables
var perms3 = [][]int{{0, 1, 2}, {0, 2, 1}, {1, 0, 2}, {1, 2, 0}, {2, 0, 1}, {2, 1, 0}}

// groupOrderPreserved: the permutation keeps the relative order of members of
// each group (intra-group order is part of the registration set).
func groupOrderPreserved(w *kit.World, order []int) bool {
	for a := 0; a < len(order); a++ {
		for b := a + 1; b < len(order); b++ {
			ra, rb := order[a], order[b]
			if ra > rb {
				for _, x := range w.Identities(ra) {
					for _, y := range w.Identities(rb) {
						if x.Group != "" && x == y {
							return false
						}
					}
				}
			}
		}
	}
	return true
}

type outcome struct {
	cls    string
	counts [kit.NS]int
}

// buildOnce registers w in its current Order, builds, binds every singleton to
// the model, checks creation order, and closes.
func buildOnce(w *kit.World, tag string) outcome {
	kit.Reset()
	c := godi.NewCollection()
	errs := w.Register(c)
	vrt.Assume(!addErrs(errs, w.N))
	p, err := c.Build()
	o := outcome{cls: kit.Class(err)}
	if err != nil {
		return o
	}
	m := kit.NewModel(w)
	m.Prop = "C06"
	m.Build()
	// wiring isomorphic to the model (hence to every other build); worlds the
	// model considers unbuildable only have their verdicts compared
	for r := 0; r < w.N && buildable(w); r++ {
		if w.Regs[r].Life != kit.LSingleton {
			continue
		}
		for _, id := range w.Identities(r) {
			step(m, []node{{p}}, 0, id, tag)
		}
	}
	// every singleton is constructed after all singletons it received
	for _, in := range kit.Log {
		if in.Aux || in.Kind == kit.KindInstance || w.Regs[in.Slot].Life != kit.LSingleton {
			continue
		}
		for _, a := range in.Args {
			if a != nil && w.Regs[a.Slot].Life == kit.LSingleton {
				vrt.Assert(a.Seq < in.Seq, "C06.dependency_created_later", tag, "singleton", in.Slot, "was constructed before singleton", a.Slot, "that it received")
			}
		}
	}
	for r := 0; r < w.N; r++ {
		for k := range kit.Calls {
			o.counts[r] += kit.Calls[k][r]
		}
	}
	p.Close()
	return o
}

// H_Order: the same registration set built under two registration orders and
// two map-order schemes gives the same verdict and isomorphic wiring.
func H_Order() {
	n := vrt.Param("n", 3)
	lifes, forms, variants := buildProfile()
	w := kit.PickWorld(n, lifes, forms, variants)
	vrt.Assume(sane(w))
	vrt.Assume(!w.Duplicate())
	knownBuildDefects(w)
	// cycles that exist only through group edges are C05's subject (Build may
	// not even terminate on them)
	vrt.Assume(!(w.Cyclic() && !w.CyclicWithoutGroups()))

	o1 := buildOnce(w, "first build")

	// second build: permuted registration order, another iteration order
	var order []int
	if n == 3 {
		order = perms3[vrt.Pick("perm", 0, len(perms3)-1)]
	} else if n == 4 {
		order = [][]int{{0, 1, 2, 3}, {1, 0, 2, 3}, {3, 2, 1, 0}, {2, 3, 0, 1}}[vrt.Pick("perm", 0, 3)]
	} else {
		order = []int{1, 0, 2, 3}[:n]
		if vrt.Pick("perm", 0, 1) == 0 {
			order = []int{0, 1, 2, 3}[:n]
		}
	}
	vrt.Assume(groupOrderPreserved(w, order))
	for k := 0; k < n; k++ {
		w.Order[k] = order[k]
	}
	vrt.SetMapOrder(vrt.Pick("order2", 0, vrt.Param("order_schemes", 2)-1))
	o2 := buildOnce(w, "second build")

	vrt.Trace("verdicts %s %s", o1.cls, o2.cls)
	vrt.Assert(o1.cls == o2.cls, "C06.verdict_differs", "Build verdict depends on registration order or iteration order:", o1.cls, "vs", o2.cls)
	if o1.cls == "ok" && o2.cls == "ok" {
		vrt.Cover("both_built")
		vrt.Assert(o1.counts == o2.counts, "C06.counts_differ", "constructor invocation counts differ between the two builds")
	} else {
		vrt.Cover("both_failed_or_differ")
	}
}
