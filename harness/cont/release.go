package cont

import (
	"context"

	"github.com/junioryono/godi/v4"
	"github.com/junioryono/godi/v4/zzverif/kit"
	"github.com/junioryono/godi/v4/zzverif/vrt"
)

type ctxKey struct{}

// H_Release (C14): N create-(nest)-use-close cycles with contexts the caller
// never cancels; after each cycle no goroutine, no reachable scope, no
// reachable instance and a cancelled scope context; the provider's reachable
// heap does not grow from cycle to cycle. With a fault plan: a scope creation
// whose initializer fails leaves nothing behind either.
func H_Release() {
	cycles := vrt.Param("cycles", 2)
	nestKind := vrt.Pick("nest", 0, 2) // 0: no nested scope, 1: nested with a nil context, 2: nested with a context of its own
	nest := nestKind != 0
	how := vrt.Pick("how", 0, 2)     // 0: Close the scope, 1: Close its parent / the outer scope, 2: cancel the caller's context
	ctxKind := vrt.Pick("ctx", 0, 2) // 0: nil, 1: background-derived value context, 2: cancellable context kept by the caller
	life := []int{kit.LScoped, kit.LTransient}[vrt.Pick("life", 0, 1)]
	withInit := vrt.Pick("init", 0, 1) == 1
	vrt.Assume(how != 2 || ctxKind == 2)

	w := &kit.World{N: 3}
	w.Order = [kit.NS]int{0, 1, 2, 3}
	w.Regs[0] = kit.Reg{Present: true, Life: life, Form: kit.IdPlain, Variant: 1} // S0(S1)
	w.Regs[1] = kit.Reg{Present: true, Life: kit.LScoped, Form: kit.IdPlain, Variant: 0}
	if withInit {
		w.Regs[2] = kit.Reg{Present: true, Life: kit.LScoped, Form: kit.IdVoidErr, Variant: 11} // E2(S0): initializer using S0 (b of slot 2 is slot 0)
	} else {
		w.N = 2
	}
	if vrt.Param("faults", 0) == 1 && withInit {
		kit.FaultSlot = 2
		kit.FaultNth = vrt.Pick("fnth", 2, 1+cycles) // never the root scope's run during Build
		kit.FaultKind = vrt.Pick("fkind", 1, 3)
		vrt.Assume(kit.FaultKind != kit.FaultNil)
	}
	if vrt.Param("closeerr", 0) == 1 {
		// Close methods of the scope's instances fail: the scope is released all the same
		kit.CloseErrMask = vrt.Pick("cerr", 1, 3)
	}
	c := godi.NewCollection()
	errs := w.Register(c)
	vrt.Assume(!addErrs(errs, w.N))
	p, err := c.Build()
	vrt.Assume(err == nil)
	vrt.Quiesce()
	base := vrt.Goroutines()
	heap0 := -1
	callerCtx, callerCancel := context.WithCancel(context.Background())
	defer callerCancel()

	for cy := 0; cy < cycles; cy++ {
		var ctx context.Context
		var cancel context.CancelFunc
		switch ctxKind {
		case 1:
			ctx = context.WithValue(context.Background(), ctxKey{}, cy)
		case 2:
			ctx, cancel = context.WithCancel(callerCtx)
		}
		logBefore := len(kit.Log)
		outer, err := p.CreateScope(ctx)
		if err != nil {
			vrt.Cover("creation_failed")
			// nothing may be left behind by the failed creation
			vrt.Quiesce()
			vrt.Assert(vrt.Goroutines() == base, "C14.goroutine_after_failed_creation", "goroutines after a failed CreateScope:", vrt.Goroutines(), "baseline", base)
			for _, in := range kit.Log[logBefore:] {
				if disposable(in) {
					vrt.Assert(in.Closed == 1, "C14.failed_creation_leak", "instance created by a failed scope creation has close count", in.Closed)
				}
				vrt.Assert(vrt.Released(p, in.Handle), "C14.failed_creation_reachable", "instance created by a failed scope creation is still reachable from the provider")
				if ctxKind == 2 {
					vrt.Assert(vrt.Released(callerCtx, in.Handle), "C14.failed_creation_pinned_by_context", "instance created by a failed scope creation is still reachable from the caller's context")
				}
			}
			if cancel != nil {
				cancel()
			}
			continue
		}
		sc := outer
		if nest {
			var ictx context.Context
			if nestKind == 2 {
				ictx = context.WithValue(context.Background(), ctxKey{}, -1)
			}
			inner, err := outer.CreateScope(ictx)
			vrt.Assume(err == nil)
			sc = inner
		}
		v, err := sc.Get(kit.TypeS[0])
		vrt.Assert(err == nil, "C14.use_failed", "resolution in a fresh scope failed:", err)
		_ = v
		v = nil
		scopeCtx := sc.Context()
		hScope := vrt.Track(sc)
		hOuter := vrt.Track(outer)
		switch how {
		case 0:
			sc.Close()
			if nest {
				outer.Close()
			}
		case 1:
			outer.Close()
		case 2:
			cancel()
		}
		vrt.Quiesce()
		vrt.Cover("cycle_closed")
		// released: goroutines, context, reachability
		vrt.Assert(scopeCtx.Err() != nil, "C14.context_live", "context of the closed scope is not cancelled")
		vrt.Assert(vrt.Goroutines() == base, "C14.goroutine_left", "goroutines after closing the scope:", vrt.Goroutines(), "baseline", base)
		if nest && how == 0 {
			// after closing only the inner scope first, the outer must not keep it - checked after both closed too
		}
		sc, outer = nil, nil
		vrt.Assert(vrt.Released(p, hScope), "C14.scope_reachable", "closed scope is still reachable from the provider")
		vrt.Assert(vrt.Released(p, hOuter), "C14.scope_reachable", "closed outer scope is still reachable from the provider")
		if ctxKind == 2 {
			vrt.Assert(vrt.Released(callerCtx, hScope), "C14.scope_pinned_by_context", "closed scope is still reachable from the caller's context")
		}
		for _, in := range kit.Log[logBefore:] {
			vrt.Assert(vrt.Released(p, in.Handle), "C14.instance_reachable", "instance of slot", in.Slot, "created in a closed scope is still reachable from the provider")
		}
		if cancel != nil {
			cancel()
		}
		scopeCtx = nil
		// bounded memory: the provider's reachable heap is the same after every cycle
		h := vrt.HeapSize(p)
		if heap0 < 0 {
			heap0 = h
		} else {
			vrt.Assert(h == heap0, "C14.heap_grows", "cells reachable from the provider after cycle", cy, ":", h, "after the first:", heap0)
		}
	}
	p.Close()
	vrt.Quiesce()
	vrt.Assert(vrt.Goroutines() <= base, "C14.goroutine_left", "goroutines after closing the provider:", vrt.Goroutines())
}

// H_ReleaseChild: a child closed on its own must be forgotten by its parent
// and by the provider while the parent stays open.
func H_ReleaseChild() {
	w := &kit.World{N: 1}
	w.Order = [kit.NS]int{0, 1, 2, 3}
	w.Regs[0] = kit.Reg{Present: true, Life: kit.LScoped, Form: kit.IdPlain, Variant: 0}
	c := godi.NewCollection()
	errs := w.Register(c)
	vrt.Assume(!addErrs(errs, 1))
	p, err := c.Build()
	vrt.Assume(err == nil)
	parent, err := p.CreateScope(nil)
	vrt.Assume(err == nil)
	vrt.Quiesce()
	base := vrt.Goroutines()
	cycles := vrt.Param("cycles", 3)
	depth := vrt.Pick("depth", 1, 2)
	heap0 := -1
	for cy := 0; cy < cycles; cy++ {
		child, err := parent.CreateScope(nil)
		vrt.Assume(err == nil)
		leaf := child
		if depth == 2 {
			leaf, err = child.CreateScope(nil)
			vrt.Assume(err == nil)
		}
		leaf.Get(kit.TypeS[0])
		logLast := kit.Log[len(kit.Log)-1]
		hc, hl := vrt.Track(child), vrt.Track(leaf)
		if vrt.Pick("via"+string(rune('0'+cy)), 0, 1) == 0 {
			leaf.Close()
		}
		child.Close()
		child, leaf = nil, nil
		vrt.Quiesce()
		vrt.Cover("child_closed")
		vrt.Assert(vrt.Goroutines() == base, "C14.goroutine_left", "goroutines after closing a child scope:", vrt.Goroutines(), "baseline", base)
		vrt.Assert(vrt.Released(parent, hc) && vrt.Released(parent, hl), "C14.child_reachable_from_parent", "closed child scope still reachable from its open parent")
		vrt.Assert(vrt.Released(p, hc) && vrt.Released(p, hl), "C14.scope_reachable", "closed child scope still reachable from the provider")
		vrt.Assert(vrt.Released(p, logLast.Handle), "C14.instance_reachable", "instance of a closed child scope still reachable from the provider")
		h := vrt.HeapSize(p)
		if heap0 < 0 {
			heap0 = h
		} else {
			vrt.Assert(h == heap0, "C14.heap_grows", "cells reachable from the provider after cycle", cy, ":", h, "after the first:", heap0)
		}
	}
	parent.Close()
	p.Close()
}
