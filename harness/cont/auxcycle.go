package cont

import (
	"errors"
	"reflect"

	"github.com/junioryono/godi/v4"
	"github.com/junioryono/godi/v4/zzverif/kit"
	"github.com/junioryono/godi/v4/zzverif/vrt"
)

// A dependency cycle that runs through a SECONDARY output of a multi-output
// constructor: newResults(*acIndex) yields (first, *acStore); newIndex(*acStore).
type acStore struct{}
type acIndex struct{}
type acFirst struct{}
type acOutPlain struct {
	godi.Out
	First *acFirst
	Store *acStore
}
type acOutNamed struct {
	godi.Out
	First *acFirst `name:"x"`
	Store *acStore
}
type acOutGroup struct {
	godi.Out
	First *acFirst `group:"g"`
	Store *acStore
}

func acNewPlain(i *acIndex) acOutPlain           { return acOutPlain{First: &acFirst{}, Store: &acStore{}} }
func acNewNamed(i *acIndex) acOutNamed           { return acOutNamed{First: &acFirst{}, Store: &acStore{}} }
func acNewGroup(i *acIndex) acOutGroup           { return acOutGroup{First: &acFirst{}, Store: &acStore{}} }
func acNewMulti(i *acIndex) (*acFirst, *acStore) { return &acFirst{}, &acStore{} }
func acNewIndexCyclic(s *acStore) *acIndex       { return &acIndex{} }
func acNewIndexPlain() *acIndex                  { return &acIndex{} }

// H_AuxCycle (C05): the second output of a multi-output constructor (result
// object whose first field is plain / named / a group member, or a multi-return
// constructor) closes a cycle - or does not.
// Build reports a CircularDependencyError exactly in the cyclic case; in the
// acyclic case everything resolves.
func H_AuxCycle() {
	form := vrt.Pick("form", 0, 3)
	cyclic := vrt.Pick("cyclic", 0, 1) == 1
	life := []int{kit.LScoped, kit.LTransient}[vrt.Pick("life", 0, 1)]
	c := godi.NewCollection()
	var e1 error
	switch form {
	case 0:
		e1 = addLife(c, life, acNewPlain)
	case 1:
		e1 = addLife(c, life, acNewNamed)
	case 2:
		e1 = addLife(c, life, acNewGroup)
	default:
		e1 = addLife(c, life, acNewMulti)
	}
	var e2 error
	if cyclic {
		e2 = addLife(c, life, acNewIndexCyclic)
	} else {
		e2 = addLife(c, life, acNewIndexPlain)
	}
	vrt.Assume(e1 == nil && e2 == nil)
	vrt.Limit("C05.nontermination")
	p, err := c.Build()
	if cyclic {
		vrt.Cover("cyclic")
		vrt.Assert(err != nil, "C05.missed_cycle", "a cycle through the second output of a multi-output constructor was not reported by Build; form", form)
		if err != nil {
			var cde *godi.CircularDependencyError
			vrt.Assert(errors.As(err, &cde), "C05.missed_cycle", "Build failed on that cycle with something else than a CircularDependencyError:", err)
		} else {
			p.Close()
		}
		return
	}
	vrt.Cover("acyclic")
	vrt.Assert(err == nil, "C05.false_cycle", "Build failed on an acyclic set with a multi-output constructor:", err)
	if err != nil {
		return
	}
	sc, e := p.CreateScope(nil)
	vrt.Assume(e == nil)
	_, e3 := sc.Get(reflect.TypeOf((*acStore)(nil)))
	vrt.Assert(e3 == nil, "C08.notfound_after_build", "the second output does not resolve:", e3)
	_, e4 := sc.Get(reflect.TypeOf((*acIndex)(nil)))
	vrt.Assert(e4 == nil, "C08.notfound_after_build", "the dependency of the multi-output constructor does not resolve:", e4)
	sc.Close()
	p.Close()
}
