package cont

import (
	"context"
	"errors"
	"reflect"

	"github.com/junioryono/godi/v4"
	"github.com/junioryono/godi/v4/zzverif/kit"
	"github.com/junioryono/godi/v4/zzverif/vrt"
)

type notAnInterface struct{}

// H_Misuse (C15, inputs): a table of API calls with nil / zero / unregistered /
// mismatched arguments; none may panic (Must* excepted) and each failure must
// be classifiable with errors.Is / errors.As.
func H_Misuse() {
	c := godi.NewCollection()
	c.AddSingleton(kit.TabC[0][0])                   // *S0
	c.AddScoped(kit.TabC[1][0], godi.Name("k1"))     // *S1 keyed
	c.AddTransient(kit.TabC[3][0], godi.Group("g1")) // *S3 in group
	var nilFunc func() *kit.S0
	var p godi.Provider
	var sc godi.Scope
	built := vrt.Pick("built", 0, 2) // 0: collection only, 1: provider+scope open, 2: both closed
	if built >= 1 {
		var err error
		p, err = c.Build()
		vrt.Assume(err == nil)
		sc, err = p.CreateScope(nil)
		vrt.Assume(err == nil)
		if built == 2 {
			sc.Close()
			p.Close()
		}
	}
	call := vrt.Pick("call", 0, 33)
	var err error
	want := "" // expected class; "" = must succeed; "any" = any error
	is := func(target error) func(error) bool { return func(e error) bool { return errors.Is(e, target) } }
	var check func(error) bool
	needP := false
	panicked, pv := guard(func() {
		switch call {
		case 0:
			err, want, check = c.AddSingleton(nil), "ctor-nil", is(godi.ErrConstructorNil)
		case 1:
			err, want, check = c.AddScoped(nilFunc), "any", nil
		case 2:
			err, want = c.AddTransient(kit.TabC[2][0], godi.Name("a"), godi.Group("b")), "any"
		case 3:
			err, want = c.AddSingleton(kit.TabC[2][0], godi.As[notAnInterface]()), "any"
		case 4:
			err, want = c.AddSingleton(kit.TabC[2][0], godi.As[kit.I1]()), "any" // S2 does not implement I1
		case 5:
			err, want = c.AddSingleton(kit.TabC[0][0]), "already"
			check = func(e error) bool { var ar *godi.AlreadyRegisteredError; return errors.As(e, &ar) }
		case 6:
			err, want = c.AddScoped(kit.TabC[1][0], godi.Name("k1")), "already"
			check = func(e error) bool { var ar *godi.AlreadyRegisteredError; return errors.As(e, &ar) }
		case 7:
			err = c.AddTransient(kit.TabC[3][0], godi.Group("g1")) // groups accumulate
		case 8:
			vrt.Assert(!c.Contains(nil) && !c.ContainsKeyed(nil, "k"), "C15.contains_nil")
			c.Remove(nil)
			c.RemoveKeyed(nil, "k")
		case 9:
			err = c.AddModules(nil, nil)
		case 10:
			err, want = c.AddSingleton((*kit.S0)(nil)), "any"
		case 11:
			err, want = c.AddSingleton(func() {}, godi.Name("`")), "any"
		case 12:
			err, want = c.AddSingleton(func(ch chan int) *kit.S2 { return nil }), "any"
		case 13:
			err, want = c.AddSingleton(func() chan int { return nil }), "any"
		case 14:
			err, want = c.AddSingleton(func() context.Context { return nil }), "any" // reserved type
		case 15:
			err, want = c.AddSingleton(42, godi.As[kit.I0]()), "any"
		case 16:
			needP = true
			_, err = p.Get(nil)
			want, check = "type-nil", is(godi.ErrServiceTypeNil)
		case 17:
			needP = true
			_, err = p.GetKeyed(kit.TypeS[1], nil)
			want, check = "key-nil", is(godi.ErrServiceKeyNil)
		case 18:
			needP = true
			_, err = p.GetGroup(kit.TypeS[3], "")
			want, check = "group-empty", is(godi.ErrGroupNameEmpty)
		case 19:
			needP = true
			_, err = p.Get(kit.TypeS[2])
			want, check = "notfound", is(godi.ErrServiceNotFound)
		case 20:
			needP = true
			_, err = p.GetKeyed(kit.TypeS[1], "other")
			want, check = "notfound", is(godi.ErrServiceNotFound)
		case 21:
			needP = true
			_, err = p.Get(kit.TypeS[1]) // registered only under a key
			want, check = "notfound", is(godi.ErrServiceNotFound)
		case 22:
			needP = true
			var vs []any
			vs, err = p.GetGroup(kit.TypeS[2], "nobody")
			if built == 1 {
				vrt.Assert(err == nil && vs != nil && len(vs) == 0, "C15.empty_group", "an empty group must resolve to an empty slice")
			}
		case 23:
			_, err = godi.Resolve[*kit.S0](nil)
			want, check = "provider-nil", is(godi.ErrProviderNil)
		case 24:
			needP = true
			_, err = godi.ResolveKeyed[*kit.S1](p, nil)
			want, check = "key-nil", is(godi.ErrServiceKeyNil)
		case 25:
			needP = true
			_, err = godi.ResolveGroup[*kit.S3](p, "")
			want, check = "group-empty", is(godi.ErrGroupNameEmpty)
		case 26:
			_, err = godi.FromContext(nil)
			want = "any"
		case 27:
			_, err = godi.FromContext(context.Background())
			want = "any"
		case 28:
			needP = true
			_, err = godi.Resolve[*kit.S2](sc)
			want, check = "notfound", is(godi.ErrServiceNotFound)
		case 29:
			needP = true
			_, err = godi.Resolve[kit.I0](sc) // nothing registered under the interface
			want, check = "notfound", is(godi.ErrServiceNotFound)
		case 30:
			needP = true
			_, err = sc.GetKeyed(kit.TypeS[1], 7) // a key of another type
			want, check = "notfound", is(godi.ErrServiceNotFound)
		case 31:
			needP = true
			_, err = sc.Get(reflect.TypeOf(0))
			want, check = "notfound", is(godi.ErrServiceNotFound)
		case 32:
			_, err = godi.ResolveGroup[*kit.S3](nil, "g1")
			want, check = "provider-nil", is(godi.ErrProviderNil)
		case 33:
			_, err = godi.ResolveKeyed[*kit.S1](nil, "k1")
			want, check = "provider-nil", is(godi.ErrProviderNil)
		}
	})
	vrt.Assume(!needP || built >= 1)
	vrt.Cover("called")
	vrt.Assert(!panicked, "C15.panic_on_input", "API call", call, "panicked:", pv)
	if panicked {
		return
	}
	vrt.Trace("call=%d built=%d err=%v", call, built, err != nil)
	if needP && built == 2 {
		// closed: the disposed error wins for provider / scope calls
		// (argument validation may legitimately come first)
		isScopeCall := call >= 28 && call <= 31
		argErr := check != nil && err != nil && check(err) && want != "notfound"
		if isScopeCall {
			vrt.Assert(errors.Is(err, godi.ErrScopeDisposed) || argErr, "C15.disposed_class", "call", call, "on a closed scope returned", err)
		} else if call != 23 && call != 32 && call != 33 {
			vrt.Assert(errors.Is(err, godi.ErrProviderDisposed) || argErr, "C15.disposed_class", "call", call, "on a closed provider returned", err)
		}
		return
	}
	switch want {
	case "":
		vrt.Assert(err == nil, "C15.unexpected_error", "call", call, "failed:", err)
	case "any":
		vrt.Assert(err != nil, "C15.missing_error", "call", call, "must be rejected")
	default:
		vrt.Assert(err != nil && check(err), "C15.unclassifiable", "call", call, "must fail as", want, "got", err)
	}
	if call <= 15 && want != "" {
		// a rejected registration leaves the collection usable
		_, berr := c.Build()
		vrt.Assert(berr == nil || built >= 1, "C15.collection_broken_by_rejected_add", "Build after a rejected Add failed:", berr)
	}
}

// H_Faults (C15, fault sequences): a dependency chain 0 -> 1 -> 2 with symbolic
// lifetimes; one constructor fails (error / nil / panic) at a symbolic
// invocation during Build or during a resolution; the failure must surface as a
// classifiable error through every wrapper, must not be cached, must leave the
// services completed on the way owned (closed exactly once later), and a retry
// must behave like a first attempt.
func H_Faults() {
	lifes := []int{kit.LSingleton, kit.LScoped, kit.LTransient}
	w := &kit.World{N: 3}
	w.Order = [kit.NS]int{0, 1, 2, 3}
	for r := 0; r < 3; r++ {
		w.Regs[r] = kit.Reg{Present: true, Life: lifes[vrt.Pick("life"+string(rune('0'+r)), 0, 2)], Form: kit.IdPlain, Variant: 1}
	}
	w.Regs[2].Variant = 0
	// leaf3=1: the chain is 0 -> 1 -> 3 instead: slot 3 is disposable (slot 2 is
	// not), so the leaf's Close is observable too
	leaf := 2
	if vrt.Param("leaf3", 0) == 1 {
		leaf = 3
		w.N = 4
		w.Regs[3] = w.Regs[2]
		w.Regs[2] = kit.Reg{}
		w.Regs[1].Variant = 11
	}
	vrt.Assume(buildable(w))
	// the failing constructor's shape: (T, error), (T, A, error) or (result object, error)
	fform := []int{kit.IdPlain, kit.IdMulti, kit.IdResObj, kit.IdIface}[vrt.Pick("fform", 0, 3)]
	viaModule := vrt.Pick("module", 0, 1) == 1
	kit.FaultSlot = []int{0, 1, leaf}[vrt.Pick("fslot", 0, 2)]
	kit.FaultNth = vrt.Pick("fnth", 1, 2)
	// a typed nil pointer result is a value as far as the statement goes; the
	// fault kinds here are "returns an error" and "panics"
	kit.FaultKind = []int{kit.FaultError, kit.FaultPanic, kit.FaultWrapped}[vrt.Pick("fkind", 0, 2)]
	fs := kit.FaultSlot
	// a constructor declared to return an interface can only head the chain (the
	// others are consumed by concrete type); it may also "fail" by returning a nil
	// interface without error, which the container rejects
	vrt.Assume(fform != kit.IdIface || fs == 0)
	if fform == kit.IdIface && vrt.Pick("nilresult", 0, 1) == 1 {
		kit.FaultKind = kit.FaultNil
	}
	topType := kit.TypeS[0]
	if fform == kit.IdIface {
		topType = kit.TypeI0
	}
	w.Regs[fs].Form = fform
	invocations := func() int {
		n := 0
		for k := range kit.Calls {
			n += kit.Calls[k][fs]
		}
		return n
	}

	c := godi.NewCollection()
	if viaModule {
		ctor := func(r int) godi.ModuleOption {
			cc, _ := w.Ctor(r)
			switch w.Regs[r].Life {
			case kit.LSingleton:
				return godi.AddSingleton(cc)
			case kit.LScoped:
				return godi.AddScoped(cc)
			}
			return godi.AddTransient(cc)
		}
		err := c.AddModules(godi.NewModule("outer", godi.NewModule("inner", ctor(0), ctor(1)), ctor(leaf)))
		vrt.Assume(err == nil)
	} else {
		errs := w.Register(c)
		vrt.Assume(!addErrs(errs, w.N))
	}

	classify := func(err error, where string) {
		switch kit.FaultKind {
		case kit.FaultError:
			vrt.Assert(errors.Is(err, kit.ErrBoom), "C15.cause_lost", where, "the constructor's own error is not reachable with errors.Is:", err)
		case kit.FaultWrapped:
			vrt.Assert(errors.Is(err, kit.ErrWrapped), "C15.cause_lost", where, "the error value the constructor returned (its own fmt.Errorf wrapper) is not reachable with errors.Is:", err)
			vrt.Assert(errors.Is(err, kit.ErrBoom), "C15.cause_lost", where, "the root cause behind the constructor's wrapper is not reachable:", err)
		case kit.FaultPanic:
			var cp *godi.ConstructorPanicError
			ok := errors.As(err, &cp)
			vrt.Assert(ok, "C15.panic_not_exposed", where, "a constructor panic is not exposed as ConstructorPanicError:", err)
			if ok {
				vrt.Assert(cp.Panic == kit.PanicVal, "C15.panic_value_lost", where, "panic value", cp.Panic)
			}
		case kit.FaultNil:
			vrt.Assert(err != nil, "C15.nil_result_accepted", where)
		}
	}

	var p godi.Provider
	var berr error
	panicked, pv := guard(func() { p, berr = c.Build() })
	vrt.Assert(!panicked, "C15.panic_escaped", "Build panicked:", pv)
	if panicked {
		return
	}
	if berr != nil {
		vrt.Cover("build_failed")
		var be *godi.BuildError
		vrt.Assert(errors.As(berr, &be), "C15.build_error_type", "Build error is not a BuildError")
		if kit.FaultKind != kit.FaultNil {
			classify(berr, "Build:")
		}
		// nothing left behind (C10 obligation restated for the fault path)
		for _, in := range kit.Log {
			if disposable(in) {
				vrt.Assert(in.Closed == 1, "C15.partial_state_after_failed_build", "instance of slot", in.Slot, "close count", in.Closed)
			}
		}
		// a retry behaves like a first attempt: the fault has passed
		p2, err2 := c.Build()
		if kit.FaultNth == 1 {
			vrt.Assert(err2 == nil, "C15.retry_build_failed", "second Build after a one-off constructor failure failed:", err2)
		}
		if err2 == nil {
			p2.Close()
		}
		return
	}
	vrt.Cover("built")
	sc, serr := p.CreateScope(nil)
	vrt.Assume(serr == nil)
	failedOnce, retried := false, false
	for attempt := 0; attempt < 3; attempt++ {
		callsBefore := invocations()
		var v any
		var err error
		panicked, pv := guard(func() { v, err = sc.Get(topType) })
		vrt.Assert(!panicked, "C15.panic_escaped", "Get panicked:", pv)
		if panicked {
			return
		}
		if err != nil {
			vrt.Cover("resolution_failed")
			vrt.Assert(!failedOnce, "C15.failure_cached", "the same one-off failure was reported twice: failed resolution cached?")
			failedOnce = true
			if kit.FaultKind != kit.FaultNil {
				classify(err, "Get:")
			}
			var re *godi.ResolutionError
			_ = errors.As(err, &re)
			continue
		}
		in := kit.InfoOf(v)
		vrt.Assert(in != nil && in.Slot == 0, "C15.bad_value_after_retry", "resolution returned an unusable value")
		if failedOnce && !retried {
			// the first attempt after the failure invokes the failed constructor again
			retried = true
			vrt.Assert(invocations() > callsBefore, "C15.retry_did_not_construct", "retry did not invoke the failed constructor again")
		}
		if in != nil && in.Slot == 0 {
			// the retry result is fully wired: 0 -> 1 -> 2
			ok := len(in.Args) == 1 && in.Args[0] != nil && in.Args[0].Slot == 1 && len(in.Args[0].Args) == 1 && in.Args[0].Args[0] != nil && in.Args[0].Args[0].Slot == leaf
			vrt.Assert(ok, "C15.partial_value", "value returned after a failure is not fully wired")
		}
	}
	sc.Close()
	p.Close()
	for _, in := range kit.Log {
		if disposable(in) {
			vrt.Assert(in.Closed == 1, "C15.ownership_lost_after_failure", "instance of slot", in.Slot, "constructed around a failed resolution has close count", in.Closed)
		}
	}
	// C11: within one scope, what was created later is closed earlier - an
	// instance is closed before the (non-singleton) instances it received, also
	// when a failed construction lies between their creation and the Close
	for _, in := range kit.Log {
		if !disposable(in) || len(in.CloseSeq) == 0 || w.Regs[in.Slot].Life == kit.LSingleton {
			continue
		}
		for _, a := range in.Args {
			if a == nil || !disposable(a) || len(a.CloseSeq) == 0 || w.Regs[a.Slot].Life == kit.LSingleton {
				continue
			}
			vrt.Assert(in.CloseSeq[0] < a.CloseSeq[0], "C11.dependency_closed_first", "the instance of slot", a.Slot, "was closed before the instance of slot", in.Slot, "that holds it")
		}
	}
}
