package cont

import (
	"context"
	"reflect"

	"github.com/junioryono/godi/v4"
	"github.com/junioryono/godi/v4/zzverif/kit"
	"github.com/junioryono/godi/v4/zzverif/vrt"
)

type valKey struct{ n int }

var (
	ctxType  = reflect.TypeOf((*context.Context)(nil)).Elem()
	scType   = reflect.TypeOf((*godi.Scope)(nil)).Elem()
	provType = reflect.TypeOf((*godi.Provider)(nil)).Elem()
)

type ctxImpl struct{ context.Context }

type outWithCtx struct {
	godi.Out
	P   *kit.S2
	Ctx context.Context
}

type outWithScope struct {
	godi.Out
	P  *kit.S2
	Sc godi.Scope `name:"k1"`
}

// A singleton whose constructor uses the provider it is given WHILE Build is
// still running: it opens a scope of its own (with a value context), asks it
// for the consumer, and closes it again.
type warmupT struct{ err error }

var warmupRuns int

func newWarmup(p godi.Provider) *warmupT {
	warmupRuns++
	w := &warmupT{}
	ctx, cancel := context.WithCancel(context.WithValue(context.Background(), valKey{5}, "warmup"))
	sc, err := p.CreateScope(ctx)
	if err != nil {
		w.err = err
		cancel()
		return w
	}
	_, w.err = sc.Get(kit.TypeS[0])
	sc.Close()
	cancel()
	return w
}

// H_Builtins (C18): a scope tree with and without caller contexts; services of
// every lifetime that take context.Context / Scope / Provider as parameters or
// parameter-object fields, resolved at a symbolic node.
func H_Builtins() {
	life := []int{kit.LSingleton, kit.LScoped, kit.LTransient}[vrt.Pick("life", 0, 2)]
	variant := []int{19, 20, 21, 22}[vrt.Pick("variant", 0, 3)]
	w := &kit.World{N: 2}
	w.Order = [kit.NS]int{0, 1, 2, 3}
	w.Regs[0] = kit.Reg{Present: true, Life: life, Form: kit.IdPlain, Variant: variant}
	// the non-built-in dependency of variants 19 / 22 (slot 1); long-lived consumers need a long-lived one
	l1 := kit.LTransient
	w.Regs[1] = kit.Reg{Present: true, Life: l1, Form: kit.IdPlain, Variant: 0}
	initForm := vrt.Pick("init", 0, 1)
	if initForm == 1 {
		// a scoped initializer that takes the three built-ins as parameters
		w.N = 3
		w.Regs[2] = kit.Reg{Present: true, Life: kit.LScoped, Form: kit.IdVoid, Variant: 21}
	}
	c := godi.NewCollection()
	// warmup: a singleton constructor that uses the provider during Build,
	// registered before (1) or after (2) the world
	warm := vrt.Pick("warmup", 0, 2)
	vrt.Assume(warm == 0 || initForm == 0)
	warmupRuns = 0
	if warm == 1 {
		vrt.Assume(c.AddSingleton(newWarmup) == nil)
	}
	errs := w.Register(c)
	vrt.Assume(!addErrs(errs, w.N))
	if warm == 2 {
		vrt.Assume(c.AddSingleton(newWarmup) == nil)
	}
	// Build() or BuildWithContext with a context of the caller's that carries a
	// value and is cancelled as soon as Build has returned
	var p godi.Provider
	var err error
	buildMode := vrt.Pick("buildmode", 0, 1)
	if buildMode == 1 {
		bctx, bcancel := context.WithCancel(context.WithValue(context.Background(), valKey{7}, "build"))
		p, err = c.BuildWithContext(bctx)
		bcancel()
	} else {
		p, err = c.Build()
	}
	vrt.Assert(err == nil, "C18.build_failed", "Build failed for a service taking built-ins:", err)
	if err != nil {
		return
	}
	if warm != 0 {
		vrt.Cover("warmup_ran")
		vrt.Assert(warmupRuns == 1, "C01.ctor_count", "the warm-up singleton was constructed", warmupRuns, "times")
	}

	// tree: n1 = provider scope with caller context (value + cancel), n2 = child
	// of n1 with nil context (inherits), n3 = grandchild with its own value
	// context, n4 = provider scope with nil context
	base, cancel := context.WithCancel(context.WithValue(context.Background(), valKey{1}, "one"))
	n1, e := p.CreateScope(base)
	vrt.Assume(e == nil)
	n2, e := n1.CreateScope(nil)
	vrt.Assume(e == nil)
	n3, e := n2.CreateScope(context.WithValue(n2.Context(), valKey{3}, "three"))
	vrt.Assume(e == nil)
	n4, e := p.CreateScope(nil)
	vrt.Assume(e == nil)
	// n5: created ON THE PROVIDER with a context derived from another scope's
	// context (an injected Provider inside a request does exactly that): its own
	// value, its own cancel, n1's values underneath
	c5, cancel5 := context.WithCancel(context.WithValue(n1.Context(), valKey{6}, "six"))
	n5, e := p.CreateScope(c5)
	vrt.Assume(e == nil)
	vrt.Assert(n5.Context().Value(valKey{6}) == "six" && n5.Context().Value(valKey{1}) == "one", "C18.value_lost", "a scope created on the provider from a scope-derived context lost a value of the context it was given")
	if s5, err := godi.FromContext(n5.Context()); true {
		vrt.Assert(err == nil && s5 == n5, "C18.fromcontext", "FromContext on the context of a scope created from a scope-derived context is not that scope")
	}
	cancel5()
	vrt.Quiesce()
	vrt.Assert(n5.Context().Err() != nil, "C18.cancel_not_propagated", "cancelling the context given to provider.CreateScope (derived from a scope context) did not cancel the new scope's context")
	vrt.Assert(n1.Context().Err() == nil, "C18.cancel_leaked", "cancelling a context derived from a scope's context cancelled that scope")
	n5.Close()
	scopes := []godi.Scope{nil, n1, n2, n3, n4}
	user := func(s godi.Scope) bool {
		for _, x := range scopes[1:] {
			if x == s {
				return true
			}
		}
		return false
	}

	// value / cancellation linkage of the scope contexts
	vrt.Assert(n1.Context().Value(valKey{1}) == "one", "C18.value_lost", "scope context lost the caller's value")
	vrt.Assert(n2.Context().Value(valKey{1}) == "one", "C18.value_lost", "child created with nil context lost its parent's value")
	vrt.Assert(n3.Context().Value(valKey{1}) == "one" && n3.Context().Value(valKey{3}) == "three", "C18.value_lost", "grandchild context lost a value")
	vrt.Assert(n4.Context().Value(valKey{1}) == nil, "C18.value_leaked", "a scope created with nil context on the provider sees another scope's value")

	// FromContext on scope contexts and on contexts derived from them
	for k := 1; k <= 4; k++ {
		s, err := godi.FromContext(scopes[k].Context())
		vrt.Assert(err == nil && s == scopes[k], "C18.fromcontext", "FromContext(scope.Context()) is not that scope; node", k)
		d1 := context.WithValue(scopes[k].Context(), valKey{9}, 9)
		d2, dc := context.WithCancel(d1)
		s2, err2 := godi.FromContext(d2)
		vrt.Assert(err2 == nil && s2 == scopes[k], "C18.fromcontext_derived", "FromContext on a derived context is not that scope; node", k)
		dc()
	}

	// direct requests for the built-ins at a symbolic node
	k := vrt.Pick("node", 1, 4)
	sc := scopes[k]
	gc, e1 := godi.Resolve[context.Context](sc)
	vrt.Assert(e1 == nil && gc == sc.Context(), "C18.direct_context", "Resolve[context.Context] is not the scope's own context; node", k)
	gs, e2 := godi.Resolve[godi.Scope](sc)
	vrt.Assert(e2 == nil && gs == sc, "C18.direct_scope", "Resolve[Scope] is not that very scope; node", k)
	gp, e3 := godi.Resolve[godi.Provider](sc)
	vrt.Assert(e3 == nil && gp == p, "C18.direct_provider", "Resolve[Provider] is not the root provider; node", k)
	vrt.Assert(sc.Provider() == p, "C18.scope_provider", "scope.Provider() is not the provider")
	_, e4 := sc.GetKeyed(ctxType, "k1")
	_, e5 := sc.GetKeyed(scType, "k1")
	vrt.Assert(e4 != nil && e5 != nil, "C18.keyed_builtin", "a keyed request for a built-in type resolved")
	// on the provider itself: the root scope
	rc, e6 := godi.Resolve[godi.Scope](p)
	vrt.Assert(e6 == nil && rc != nil && !user(rc) && rc.Provider() == p, "C18.root_scope", "Resolve[Scope] on the provider is not the provider's own root scope")

	// injected built-ins
	v, err := sc.Get(kit.TypeS[0])
	vrt.Assert(err == nil, "C18.resolve_failed", "resolving the consumer failed:", err)
	in := kit.InfoOf(v)
	if in != nil {
		vrt.Cover("consumer_resolved")
		check := func(in *kit.Inst, what string, owner godi.Scope, isSingleton bool) {
			if isSingleton {
				// constructed at Build: the provider's root scope and its context
				if in.HasScope {
					vrt.Assert(in.Scope != nil && !user(in.Scope) && in.Scope.Provider() == p && in.Scope == rc, "C18.singleton_scope", what, "singleton did not receive the root scope")
				}
				if in.HasCtx {
					s, err := godi.FromContext(in.Ctx)
					vrt.Assert(err == nil && s == rc, "C18.singleton_context", what, "singleton did not receive the root scope's context")
					vrt.Assert(in.Ctx == rc.Context(), "C18.singleton_context", what, "the context a singleton received is not the root scope's own context")
					vrt.Assert(in.Ctx.Err() == nil, "C18.singleton_context_cancelled", what, "the context a singleton received is cancelled while the provider is open")
					vrt.Assert(in.Ctx.Value(valKey{5}) == nil, "C18.singleton_context", what, "the context a singleton received carries the values of a scope another constructor opened during Build")
					vrt.Assert(in.Ctx.Value(valKey{7}) == nil, "C18.build_context_leaked", what, "the context a singleton received carries the values of the context given to BuildWithContext")
				}
			} else {
				if in.HasScope {
					vrt.Assert(in.Scope == owner, "C18.injected_scope", what, "received another scope than the one it was constructed in; node", k)
				}
				if in.HasCtx {
					vrt.Assert(in.Ctx == owner.Context(), "C18.injected_context", what, "received another context than that of its scope; node", k)
				}
			}
			if in.HasProv {
				vrt.Assert(in.Prov == p, "C18.injected_provider", what, "did not receive the root provider")
			}
			needCtx := variant != 22
			needScope := variant != 19
			vrt.Assert(in.HasCtx == needCtx && in.HasScope == needScope, "C18.builtin_missing", what, "built-in argument missing")
		}
		check(in, "consumer:", sc, life == kit.LSingleton)
	}
	if initForm == 1 {
		// initializers ran once per scope (root scope included), each with its own scope
		vrt.Assert(len(kit.VoidLog) == 6, "C18.initializer_runs", "initializer ran", len(kit.VoidLog), "times for 5 scopes + root")
		for i, vc := range kit.VoidLog {
			if i == 0 {
				vrt.Assert(vc.In.HasScope && vc.In.Scope == rc, "C18.initializer_scope", "the root scope's initializer did not receive the root scope")
				continue
			}
			if i <= 4 {
				vrt.Assert(vc.In.HasScope && vc.In.Scope == scopes[i], "C18.initializer_scope", "initializer of scope", i, "received another scope")
				vrt.Assert(vc.In.HasCtx && vc.In.Ctx == scopes[i].Context(), "C18.initializer_context", "initializer of scope", i, "received another context")
				vrt.Assert(vc.In.HasProv && vc.In.Prov == p, "C18.initializer_provider", "initializer did not receive the provider")
			}
		}
	}

	// cancellation of the caller's context reaches the scope context (and closes the subtree)
	cancel()
	vrt.Assert(n1.Context().Err() != nil && n2.Context().Err() != nil && n3.Context().Err() != nil, "C18.cancel_not_propagated", "cancelling the caller's context did not cancel the scope contexts")
	vrt.Assert(n4.Context().Err() == nil, "C18.cancel_leaked", "cancelling one caller context cancelled an unrelated scope")
	vrt.Quiesce()
	n4.Close()
	p.Close()
}

// H_Reserved (C18): the three built-in types cannot be registered by users, in
// any position a registration can name a type.
func H_Reserved() {
	c := godi.NewCollection()
	c.AddSingleton(kit.TabC[0][0])
	form := vrt.Pick("form", 0, 9)
	var err error
	switch form {
	case 0:
		err = c.AddSingleton(func() context.Context { return context.Background() })
	case 1:
		err = c.AddScoped(func() godi.Scope { return nil })
	case 2:
		err = c.AddTransient(func() godi.Provider { return nil })
	case 3:
		err = c.AddSingleton(func() *ctxImpl { return &ctxImpl{context.Background()} }, godi.As[context.Context]())
	case 4:
		err = c.AddSingleton(func() (*kit.S2, context.Context) { return &kit.S2{}, context.Background() })
	case 5:
		err = c.AddSingleton(func() outWithCtx { return outWithCtx{P: &kit.S2{}, Ctx: context.Background()} })
	case 6:
		err = c.AddSingleton(func() outWithScope { return outWithScope{P: &kit.S2{}} })
	case 7:
		err = c.AddSingleton(func() context.Context { return context.Background() }, godi.Name("k1"))
	case 8:
		err = c.AddSingleton(func() context.Context { return context.Background() }, godi.Group("g1"))
	case 9:
		err = c.AddSingleton(func() (*kit.S2, godi.Provider, error) { return &kit.S2{}, nil, nil })
	}
	vrt.Cover("tried")
	vrt.Assert(err != nil, "C18.reserved_type_registered", "registration form", form, "of a built-in type was accepted")
	// whatever happened, the built-ins still resolve to the real thing
	p, berr := c.Build()
	if berr != nil {
		return
	}
	sc, serr := p.CreateScope(nil)
	if serr != nil {
		return
	}
	gc, e1 := godi.Resolve[context.Context](sc)
	vrt.Assert(e1 == nil && gc == sc.Context(), "C18.direct_context", "after a registration attempt, Resolve[context.Context] is not the scope's context")
	sc.Close()
	p.Close()
}
