// Package graphh holds the harnesses that drive godi's internal/graph through
// its exported API only: C05(a) cycle detection, C06(a) topological sort, C19
// agreement with a plain digraph model.
package graphh

import (
	"reflect"

	"github.com/junioryono/godi/v4/internal/graph"
	"github.com/junioryono/godi/v4/internal/reflection"
	"github.com/junioryono/godi/v4/zzverif/vrt"
)

type TA struct{}
type TB struct{}
type TC struct{}

// The identity pool mixes distinct types, one type under two keys, and a
// group identity, so that NodeKey equality is exercised on all three fields.
type ident struct {
	t     reflect.Type
	key   any
	group string
}

var pool = []ident{
	{reflect.TypeOf(TA{}), nil, ""},
	{reflect.TypeOf(TB{}), nil, ""},
	{reflect.TypeOf(TA{}), "k", ""},
	{reflect.TypeOf(TB{}), nil, "g"},
}

type prov struct {
	id   int
	deps int // bit j set: depends on identity j
	n    int
}

// optionalDeps marks every declared dependency optional (a graph edge is an
// edge whether or not the consumer tolerates its absence).
var optionalDeps bool

// dupDeps lists every dependency twice (a constructor may name one service in
// two parameters); the digraph is the same.
var dupDeps bool

func (p *prov) GetType() reflect.Type { return pool[p.id].t }
func (p *prov) GetKey() any           { return pool[p.id].key }
func (p *prov) GetGroup() string      { return pool[p.id].group }
func (p *prov) GetDependencies() []*reflection.Dependency {
	var d []*reflection.Dependency
	for j := 0; j < p.n; j++ {
		if p.deps&(1<<j) != 0 {
			d = append(d, &reflection.Dependency{Type: pool[j].t, Key: pool[j].key, Group: pool[j].group, Optional: optionalDeps})
			if dupDeps {
				d = append(d, &reflection.Dependency{Type: pool[j].t, Key: pool[j].key, Group: pool[j].group, Optional: optionalDeps})
			}
		}
	}
	return d
}

func idx(k graph.NodeKey) int {
	for i, id := range pool {
		if id.t == k.Type && id.key == k.Key && id.group == k.Group {
			return i
		}
	}
	return -1
}

func keysMask(ks []graph.NodeKey) (mask int, dup bool) {
	for _, k := range ks {
		b := 1 << idx(k)
		if mask&b != 0 {
			dup = true
		}
		mask |= b
	}
	return
}

func nodesMask(ns []*graph.Node) (mask int, dup bool) {
	for _, n := range ns {
		b := 1 << idx(n.Key)
		if mask&b != 0 {
			dup = true
		}
		mask |= b
	}
	return
}

// ---- reference digraph: nodes = bit set, out[i] = bit set of i's dependencies

type model struct {
	n     int
	nodes int
	out   [4]int
}

func (m *model) add(x, deps int) {
	m.nodes |= 1<<x | deps
	m.out[x] = deps
}

func (m *model) remove(x int) {
	if m.nodes&(1<<x) == 0 {
		return
	}
	m.nodes &^= 1 << x
	m.out[x] = 0
	for i := 0; i < m.n; i++ {
		m.out[i] &^= 1 << x
	}
}

func (m *model) clear() { *m = model{n: m.n} }

// reach[i] = set of nodes reachable from i by >= 1 edge
func (m *model) closure() [4]int {
	r := m.out
	for k := 0; k < m.n; k++ {
		for i := 0; i < m.n; i++ {
			if r[i]&(1<<k) != 0 {
				r[i] |= r[k]
			}
		}
	}
	return r
}

func (m *model) cyclic() bool {
	r := m.closure()
	for i := 0; i < m.n; i++ {
		if r[i]&(1<<i) != 0 {
			return true
		}
	}
	return false
}

func (m *model) dependents(x int) int {
	d := 0
	for i := 0; i < m.n; i++ {
		if m.nodes&(1<<i) != 0 && m.out[i]&(1<<x) != 0 {
			d |= 1 << i
		}
	}
	return d
}

// depth = longest path to a node without dependencies (DAGs only)
func (m *model) depth(x int) int {
	d := 0
	for j := 0; j < m.n; j++ {
		if m.out[x]&(1<<j) != 0 {
			if dj := m.depth(j) + 1; dj > d {
				d = dj
			}
		}
	}
	return d
}

// pickEdges draws the edge relation row by row (one symbolic input per node,
// 2^n values each) - the same space as one n*n-bit mask, without a 2^(n*n)-way
// fan-out at a single decision.
func pickEdges(n int) (out [4]int, mask int) {
	for i := 0; i < n; i++ {
		out[i] = vrt.Pick("row"+string(rune('0'+i)), 0, 1<<n-1)
		mask |= out[i] << (i * n)
	}
	return
}

func edgesFromMask(mask, n int) [4]int {
	var out [4]int
	for i := 0; i < n; i++ {
		for j := 0; j < n; j++ {
			if mask&(1<<(i*n+j)) != 0 {
				out[i] |= 1 << j
			}
		}
	}
	return out
}

// checkPath validates the Path of a CircularDependencyError against the
// model's edges: non-empty, every consecutive pair an edge, and closed (last ->
// first is an edge or last == first).
func checkPath(m *model, ce *graph.CircularDependencyError, prop string) {
	p := ce.Path
	if len(p) == 0 {
		// tolerated iff Node lies on a cycle
		r := m.closure()
		i := idx(ce.Node)
		vrt.Assert(i >= 0 && r[i]&(1<<i) != 0, prop+".path_empty", "empty path and Node not on a cycle")
		return
	}
	for x := 0; x < len(p); x++ {
		vrt.Assert(idx(p[x]) >= 0, prop+".path_unknown_node")
	}
	for x := 0; x+1 < len(p); x++ {
		a, b := idx(p[x]), idx(p[x+1])
		vrt.Assert(m.out[a]&(1<<b) != 0, prop+".path_not_edges", "reported path step is not a dependency edge", a, b)
	}
	a, b := idx(p[len(p)-1]), idx(p[0])
	vrt.Assert(a == b || m.out[a]&(1<<b) != 0, prop+".path_not_closed", "reported path does not close", a, b)
}

func asCycleErr(err error) *graph.CircularDependencyError {
	if ce, ok := err.(*graph.CircularDependencyError); ok {
		return ce
	}
	return nil
}

// H_C05a_Deferred: every digraph on N identities (self-loops included) through
// AddProviderDeferred x N + DetectCycles.
func H_C05a_Deferred() {
	n := vrt.Param("N", 3)
	optionalDeps = vrt.Pick("optional", 0, 1) == 1
	dupDeps = vrt.Pick("dup", 0, 1) == 1
	out, _ := pickEdges(n)
	m := &model{n: n}
	g := graph.NewDependencyGraph()
	for i := 0; i < n; i++ {
		m.add(i, out[i])
		vrt.Assert(g.AddProviderDeferred(&prov{i, out[i], n}) == nil, "C05.add_deferred_error")
	}
	cyc := m.cyclic()
	err := g.DetectCycles()
	vrt.Trace("deferred cyclic=%v reported=%v", cyc, err != nil)
	vrt.Assert((err != nil) == cyc, "C05.graph_verdict", "DetectCycles verdict differs from transitive closure; cyclic =", cyc)
	if err != nil {
		vrt.Cover("cycle_reported")
		ce := asCycleErr(err)
		vrt.Assert(ce != nil, "C05.graph_error_type")
		if ce != nil {
			checkPath(m, ce, "C05")
		}
	} else {
		vrt.Cover("acyclic")
	}
	// second call (served from the cycle cache) and IsAcyclic agree
	err2 := g.DetectCycles()
	vrt.Assert((err2 != nil) == cyc, "C05.graph_verdict_cached")
	if ce := asCycleErr(err2); ce != nil {
		checkPath(m, ce, "C05")
	}
	vrt.Assert(g.IsAcyclic() == !cyc, "C05.graph_isacyclic")
	// the sort (the other place that reports "circular dependency") agrees
	_, terr := g.TopologicalSort()
	vrt.Assert((terr != nil) == cyc, "C05.graph_topo_disagrees", "TopologicalSort and DetectCycles disagree about the same graph: sort error =", terr, "cyclic =", cyc)
}

// H_C05a_Immediate: AddProvider one by one; each add is rejected iff it would
// close a cycle in the model. The sequence stops at the first rejection (what
// the graph looks like after a rejected add is C19's subject).
func H_C05a_Immediate() {
	n := vrt.Param("N", 3)
	out, _ := pickEdges(n)
	m := &model{n: n}
	g := graph.NewDependencyGraph()
	for i := 0; i < n; i++ {
		trial := *m
		trial.add(i, out[i])
		cyc := trial.cyclic()
		err := g.AddProvider(&prov{i, out[i], n})
		vrt.Trace("immediate step=%d cyclic=%v rejected=%v", i, cyc, err != nil)
		vrt.Assert((err != nil) == cyc, "C05.graph_immediate_verdict", "AddProvider verdict differs from model at step", i)
		if err != nil {
			vrt.Cover("rejected")
			if ce := asCycleErr(err); ce != nil {
				checkPath(&trial, ce, "C05")
			} else {
				vrt.Assert(false, "C05.graph_error_type")
			}
			return
		}
		*m = trial
	}
	vrt.Cover("all_accepted")
	vrt.Assert(g.IsAcyclic(), "C05.graph_isacyclic")
}

func checkTopo(g *graph.DependencyGraph, m *model, prop string) {
	sorted, err := g.TopologicalSort()
	vrt.Assert(err == nil, prop+".topo_error_on_dag", "TopologicalSort failed on an acyclic graph")
	if err != nil {
		return
	}
	seen := 0
	for _, nd := range sorted {
		i := idx(nd.Key)
		vrt.Assert(i >= 0, prop+".topo_unknown_node")
		vrt.Assert(seen&(1<<i) == 0, prop+".topo_duplicate", "node listed twice", i)
		vrt.Assert(m.out[i]&^seen == 0, prop+".topo_order", "node listed before one of its dependencies", i)
		seen |= 1 << i
	}
	vrt.Trace("topo n=%d seen=%d", len(sorted), seen)
	vrt.Assert(seen == m.nodes, prop+".topo_missing", "sorted set differs from node set", seen, m.nodes)
}

// H_C06a_Topo: all DAGs on N identities; both insertion paths.
func H_C06a_Topo() {
	n := vrt.Param("N", 3)
	immediate := vrt.Bool("immediate")
	optionalDeps = vrt.Pick("optional", 0, 1) == 1
	dupDeps = vrt.Pick("dup", 0, 1) == 1
	out, _ := pickEdges(n)
	m := &model{n: n}
	for i := 0; i < n; i++ {
		m.add(i, out[i])
	}
	vrt.Assume(!m.cyclic())
	g := graph.NewDependencyGraph()
	if immediate {
		vrt.Cover("immediate")
		// dependency-first order so that no add is rejected
		for i := 0; i < n; i++ {
			vrt.Assert(g.AddProvider(&prov{i, out[i], n}) == nil, "C06.add_rejected_on_dag")
		}
	} else {
		vrt.Cover("deferred")
		for i := 0; i < n; i++ {
			g.AddProviderDeferred(&prov{i, out[i], n})
		}
		vrt.Assert(g.DetectCycles() == nil, "C06.cycle_on_dag")
	}
	checkTopo(g, m, "C06")
	// the memoised order must be as valid as the first one
	checkTopo(g, m, "C06")
}

// ---- C19

func popcount(x int) int {
	n := 0
	for ; x != 0; x &= x - 1 {
		n++
	}
	return n
}

// compare runs the whole query block twice: the second pass sees the graph
// right after every query of the first (a failed TopologicalSort, CalculateDepths,
// the cycle check) - no query may change what another query answers.
func compare(g *graph.DependencyGraph, m *model, step int) {
	compareOnce(g, m, step)
	compareOnce(g, m, step)
}

func compareOnce(g *graph.DependencyGraph, m *model, step int) {
	n := m.n
	cnt := 0
	for i := 0; i < n; i++ {
		if m.nodes&(1<<i) != 0 {
			cnt++
		}
	}
	vrt.Trace("step=%d size=%d", step, g.Size())
	vrt.Assert(g.Size() == cnt, "C19.size", "Size differs from model at step", step, g.Size(), cnt)
	reach := m.closure()
	for i := 0; i < n; i++ {
		id := pool[i]
		has := m.nodes&(1<<i) != 0
		vrt.Assert(g.HasNode(id.t, id.key, id.group) == has, "C19.hasnode", "HasNode differs at step", step, i)
		nd0 := g.GetNode(id.t, id.key, id.group)
		vrt.Assert((nd0 != nil) == has, "C19.getnode", step, i)
		if !has {
			continue
		}
		if nd0 != nil {
			// the node's exported degree counters agree with its edges
			vrt.Assert(nd0.OutDegree == popcount(m.out[i]), "C19.outdegree", "OutDegree of node", i, "is", nd0.OutDegree, "model", popcount(m.out[i]), "step", step)
			vrt.Assert(nd0.InDegree == popcount(m.dependents(i)), "C19.indegree", "InDegree of node", i, "is", nd0.InDegree, "model", popcount(m.dependents(i)), "step", step)
		}
		d, dup := keysMask(g.GetDependencies(id.t, id.key, id.group))
		vrt.Assert(!dup && d == m.out[i], "C19.dependencies", "GetDependencies differs at step", step, i, d, m.out[i])
		dd, dup2 := keysMask(g.GetDependents(id.t, id.key, id.group))
		vrt.Assert(!dup2 && dd == m.dependents(i), "C19.dependents", "GetDependents differs at step", step, i, dd, m.dependents(i))
		td, _ := keysMask(g.GetTransitiveDependencies(id.t, id.key, id.group))
		vrt.Trace("node=%d deps=%d dependents=%d trans=%d", i, d, dd, td&^(1<<i))
		vrt.Assert(td&^(1<<i) == reach[i]&^(1<<i), "C19.transitive", "GetTransitiveDependencies differs at step", step, i, td, reach[i])
	}
	roots, leaves := 0, 0
	for i := 0; i < n; i++ {
		if m.nodes&(1<<i) == 0 {
			continue
		}
		if m.dependents(i) == 0 {
			roots |= 1 << i
		}
		if m.out[i] == 0 {
			leaves |= 1 << i
		}
	}
	r, _ := nodesMask(g.GetRoots())
	vrt.Assert(r == roots, "C19.roots", "GetRoots differs at step", step, r, roots)
	l, _ := nodesMask(g.GetLeaves())
	vrt.Trace("roots=%d leaves=%d acyclic=%v", r, l, g.IsAcyclic())
	vrt.Assert(l == leaves, "C19.leaves", "GetLeaves differs at step", step, l, leaves)
	cyc := m.cyclic()
	vrt.Assert(g.IsAcyclic() == !cyc, "C19.isacyclic", "IsAcyclic differs at step", step, cyc)
	if !cyc {
		vrt.Cover("acyclic_state")
		checkTopo(g, m, "C19")
		checkTopo(g, m, "C06") // the same obligation under C06's ids (sort after any history of edits)
		g.CalculateDepths()
		for i := 0; i < n; i++ {
			if m.nodes&(1<<i) != 0 {
				id := pool[i]
				nd := g.GetNode(id.t, id.key, id.group)
				if nd != nil {
					vrt.Assert(nd.Depth == m.depth(i), "C19.depth", "depth differs at step", step, i, nd.Depth, m.depth(i))
				}
			}
		}
	} else {
		vrt.Cover("cyclic_state")
		_, err := g.TopologicalSort()
		vrt.Assert(err != nil, "C19.topo_on_cycle", "TopologicalSort succeeded on a cyclic graph at step", step)
	}
}

// H_C19: a start state built with deferred adds from symbolic masks, then L
// operations with symbolic operands; the model is compared after every step.
func H_C19() {
	n := vrt.Param("N", 3)
	L := vrt.Param("L", 1)
	selfLoops := vrt.Param("self_loops", 0)
	m := &model{n: n}
	g := graph.NewDependencyGraph()
	rawStart := false
	present := vrt.Pick("present", 0, 1<<n-1)
	for i := 0; i < n; i++ {
		if present&(1<<i) == 0 {
			continue
		}
		deps := vrt.Pick("deps"+string(rune('0'+i)), 0, 1<<n-1)
		if selfLoops == 0 {
			vrt.Assume(deps&(1<<i) == 0)
		}
		m.add(i, deps)
		g.AddProviderDeferred(&prov{i, deps, n})
	}
	// detect0=0: the operations follow the deferred adds directly, without the
	// DetectCycles that refreshes the derived fields (degrees, dependents)
	if vrt.Pick("detect0", 0, vrt.Param("raw_start", 0)) == 0 || vrt.Param("raw_start", 0) == 0 {
		g.DetectCycles() // completes the deferred adds (documented)
		compare(g, m, 0)
	} else {
		vrt.Cover("raw_start")
		rawStart = true
	}
	for s := 1; s <= L; s++ {
		op := vrt.Pick("op"+string(rune('0'+s)), 0, 4)
		if rawStart && s == 1 {
			// derived fields are documented to be stale until the next DetectCycles /
			// AddProvider / RemoveProvider: the first operation is one that refreshes them
			vrt.Assume(op != 4)
		}
		switch op {
		case 0: // immediate add / replace
			x := vrt.Pick("x"+string(rune('0'+s)), 0, n-1)
			deps := vrt.Pick("d"+string(rune('0'+s)), 0, 1<<n-1)
			if selfLoops == 0 {
				vrt.Assume(deps&(1<<x) == 0)
			}
			if m.nodes&(1<<x) != 0 {
				vrt.Cover("replace")
			}
			trial := *m
			trial.add(x, deps)
			// AddProvider rejects iff the new node lies on a cycle afterwards
			r := trial.closure()
			onCycle := r[x]&(1<<x) != 0
			// ... and must accept when no cycle at all is reachable from it.
			// When the graph already held a cycle (possible only through
			// deferred adds) that x merely reaches, the statement does not
			// say which verdict is right: either is accepted.
			reachesCycle := onCycle
			for k := 0; k < n; k++ {
				if r[x]&(1<<k) != 0 && r[k]&(1<<k) != 0 {
					reachesCycle = true
				}
			}
			err := g.AddProvider(&prov{x, deps, n})
			if onCycle {
				vrt.Assert(err != nil, "C19.add_verdict", "AddProvider accepted a node that closes a cycle at step", s)
			}
			if !reachesCycle {
				vrt.Assert(err == nil, "C19.add_verdict", "AddProvider rejected an add that reaches no cycle at step", s)
			}
			if err == nil {
				*m = trial
			} else {
				vrt.Cover("rejected_add")
			}
		case 1: // deferred add / replace + documented completion
			x := vrt.Pick("x"+string(rune('0'+s)), 0, n-1)
			deps := vrt.Pick("d"+string(rune('0'+s)), 0, 1<<n-1)
			if selfLoops == 0 {
				vrt.Assume(deps&(1<<x) == 0)
			}
			m.add(x, deps)
			g.AddProviderDeferred(&prov{x, deps, n})
			g.DetectCycles()
			vrt.Cover("deferred_add")
		case 2:
			x := vrt.Pick("x"+string(rune('0'+s)), 0, n-1)
			if rawStart && s == 1 {
				vrt.Assume(m.nodes&(1<<x) != 0) // removing nothing refreshes nothing
			}
			m.remove(x)
			id := pool[x]
			g.RemoveProvider(id.t, id.key, id.group)
			vrt.Cover("remove")
		case 3:
			m.clear()
			g.Clear()
			vrt.Cover("clear")
		case 4: // queries only (cache staleness: compare twice)
			vrt.Cover("noop")
		}
		compare(g, m, s)
	}
}
